"""C09 - container series keep their length and dtype under every assignment history.

R1 whole-array stores are shape-safe, R2 dtype on replacement, R3 raise before
store, R4 strict, R5 values/size agreement.
"""

from __future__ import annotations

import ast
from typing import Dict, List, Optional, Set, Tuple

from fsa.cfg import raised_class
from fsa.effects import effect_nodes
from fsa.flow import PARAM
from fsa.match import Unknown, cmp_of, dict_slot, disj_atoms, dotted, is_call, is_const, is_underscore_key, kwarg, method_call, is_super_call, is_self_call, nnf_atoms
from fsa.source import AnchorMissing, Unsupported, c3_mro, iter_own_nodes, resolve_method, stmt_key, text
from rules.common import Fn
from rules.solver_common import effects_of

VC = 'fsic.core.containers.VectorContainer'
MI = 'fsic.core.interfaces.ModelInterface'
SPAN_LEN = ("len(self.__dict__['span'])", 'len(self.span)', 'len(span)')


def _read_target(f: Fn, n, target: ast.AST) -> ast.AST:
    """A store target with the locals it mentions read through (`key = '_' + name; d[key] = v` stores to `d['_' + name]`)."""
    import copy as _copy

    class L(ast.NodeTransformer):
        def visit_Name(self, node):
            return ast.copy_location(ast.Name(id=node.id, ctx=ast.Load()), node)

        def visit_Subscript(self, node):
            self.generic_visit(node)
            node.ctx = ast.Load()
            return node

        def visit_Attribute(self, node):
            self.generic_visit(node)
            node.ctx = ast.Load()
            return node

    return f.expand(n.id, ast.fix_missing_locations(L().visit(_copy.deepcopy(target))))


def _whole_array_stores(f: Fn):
    """Statements `X.__dict__['_' + name] = v` (replace a series' backing array)."""
    out = []
    for n in f.cfg.nodes:
        a = n.ast
        if n.kind != 'stmt' or not isinstance(a, ast.Assign) or len(a.targets) != 1:
            continue
        ds = dict_slot(_read_target(f, n, a.targets[0])) if isinstance(a.targets[0], ast.Subscript) else None
        if ds is None:
            continue
        key = ds[1]
        if is_underscore_key(key) is not None:
            out.append((n, ds[0], key, a.value))
    return out


def _rank_of(f: Fn, nid: int, v: ast.AST, depth: int = 0) -> Tuple[str, List[int]]:
    """('1d-len' | '1d' | 'any' | 'unknown', definition sites) for the array stored."""
    if depth > 6:
        return ('unknown', [])
    if is_call(v, 'np.full', 'numpy.full') and v.args:
        a0 = text(v.args[0])
        if a0 in SPAN_LEN or a0.endswith('.shape') and not a0.endswith('values.shape'):
            return ('1d-len', [nid])
        return ('unknown', [nid])
    if is_call(v, 'np.array', 'numpy.array') and v.args and isinstance(v.args[0], (ast.ListComp,)):
        g = v.args[0].generators
        if len(g) == 1 and text(g[0].iter) in ('self.span', "self.__dict__['span']", 'span') and not g[0].ifs:
            return ('1d-len', [nid])
    if method_call(v, 'flatten', 'ravel') and not v.args:
        return ('1d', [nid])
    if method_call(v, 'reshape') and len(v.args) == 1 and (is_const(v.args[0], -1)):
        return ('1d', [nid])
    if method_call(v, 'astype') and isinstance(v.func.value, ast.Name):
        return _rank_name(f, nid, v.func.value.id, depth + 1)
    if is_call(v, 'np.array', 'numpy.array', 'np.asarray', 'numpy.asarray'):
        if v.args and isinstance(v.args[0], ast.Name):
            # an array made from an array keeps its rank
            k, ss = _rank_name(f, nid, v.args[0].id, depth + 1)
            if k in ('1d', '1d-len'):
                return (k, ss)
        return ('any', [nid])
    if isinstance(v, ast.Name):
        return _rank_name(f, nid, v.id, depth + 1)
    return ('unknown', [nid])


def _rank_name(f: Fn, nid: int, name: str, depth: int) -> Tuple[str, List[int]]:
    kinds = []
    sites: List[int] = []
    for (s, dv) in f.lf.values_reaching(nid, name):
        if s == PARAM or dv is None:
            kinds.append('unknown')
            continue
        k, ss = _rank_of(f, s, dv, depth)
        if k == 'any' and _only_through_ndim1(f, s, nid, name):
            k = '1d'   # this definition gets here only past a test that found it 1-D
        kinds.append(k)
        sites += ss
    order = ['unknown', 'any', '1d', '1d-len']
    worst = min(kinds, key=order.index) if kinds else 'unknown'
    return (worst, sites)


def _only_through_ndim1(f: Fn, site: int, nid: int, name: str) -> bool:
    """Does the definition of `name` at `site` reach node `nid` only along edges on which `name.ndim == 1` was found true
    (paths through another definition of `name` do not carry this one)?"""
    good = set()
    for tn in f.tests():
        for (a, tr) in nnf_atoms(tn.ast, True):
            c = cmp_of(a)
            if c is not None and set(c.expr.terms) == {f'{name}.ndim'} and len(nnf_atoms(tn.ast, True)) == 1:
                # c: (k*ndim + const) op 0
                k_ = c.expr.terms[f'{name}.ndim']
                eq1 = (c.op in ('==', '!=')) and (k_ + c.expr.const == 0)
                if eq1:
                    truth_when_T = tr if c.op == '==' else (not tr)
                    good.add((tn.id, 'T' if truth_when_T else 'F'))
    if not good:
        return False
    other_defs = {d for d in range(len(f.cfg.nodes)) if d != site and f.cfg.nodes[d].ast is not None and f.cfg.nodes[d].kind == 'stmt'
                  and any(isinstance(x, ast.Name) and x.id == name and isinstance(x.ctx, ast.Store) for x in ast.walk(f.cfg.nodes[d].ast))}
    seen, work = {site}, [site]
    while work:
        cur = work.pop()
        for (b, lab) in f.cfg.nodes[cur].succ:
            if (cur, lab) in good or b in other_defs or b in seen:
                continue
            if b == nid:
                return False
            seen.add(b)
            work.append(b)
    return True


def _dimension_guards(f: Fn, nid: int, arr: str) -> Tuple[bool, bool]:
    """(length guard, ndim guard): raises of DimensionError whose test's false
    edge guards node `nid`."""
    has_len = has_ndim = False
    for (tid, lab) in f.guards_of(nid):
        tn = f.cfg.nodes[tid]
        if tn.kind != 'test' or lab != 'F':
            continue
        # the true branch ends in DimensionError: directly, or after building the message - it never reaches the store
        tsucc = [b for (b, l2) in tn.succ if l2 == 'T']
        raises = bool(tsucc) and all(
            not f.cfg.reaches(b, nid) and any(isinstance(m_.ast, ast.Raise) and raised_class(m_.ast) == 'DimensionError' and (m_.id == b or f.cfg.reaches(b, m_.id))
                                              for m_ in f.cfg.nodes) for b in tsucc)
        if not raises:
            continue
        for atom in disj_atoms(tn.ast):
            atom = f.expand(tn.id, atom, stop=(arr,))
            t = text(atom)
            c = cmp_of(atom)
            if c is not None and c.op == '!=':
                terms = set(c.expr.terms)
                if any(k in SPAN_LEN for k in terms) and any(k in (f'{arr}.shape[0]', f'len({arr})', f'{arr}.size') for k in terms):
                    has_len = True
                if terms == {f'{arr}.ndim'} and c.expr.const in (-1, 1):
                    has_ndim = True
            if t in (f'{arr}.shape != ({SPAN_LEN[0]},)', f'{arr}.shape != ({SPAN_LEN[1]},)'):
                has_len = has_ndim = True
    return has_len, has_ndim


def r1_shape_safe(R) -> None:
    sites = 0
    for q in (f'{VC}.add_variable', f'{VC}.__setattr__', f'{VC}.reindex', 'fsic.extensions.model.TracerMixin.__init__'):
        f = Fn(R, q, inline_methods=True)
        for (n, owner, key, v) in _whole_array_stores(f):
            sites += 1
            rank, _sites = _rank_of(f, n.id, v)
            arr = v.id if isinstance(v, ast.Name) else text(v)
            if rank == 'unknown':
                raise Unknown(f'{q}: cannot determine the shape of `{text(v)[:50]}` stored by `{n.label()[:60]}`')
            if rank == '1d-len':
                R.ok(q, f'`{n.label()[:60]}`: the array stored is 1-D of len(span) by construction')
                continue
            has_len, has_ndim = _dimension_guards(f, n.id, arr)
            if rank == '1d':
                R.check(has_len, q, f'shape:{stmt_key(n.ast)}', 'flattened array + length guard raising DimensionError',
                        f'`{n.label()[:70]}` stores a flattened array without a length check against len(span)', where=f.where(n))
            else:  # any rank
                R.check(has_len and has_ndim, q, f'shape:{stmt_key(n.ast)}',
                        'array of unknown rank is guarded by ndim == 1 and length == len(span)',
                        f'`{n.label()[:70]}` can store an array that is not 1-D of len(span): guards present: length={has_len}, ndim={has_ndim} '
                        f'(e.g. a nested list of the right outer length stores a 2-D array)', where=f.where(n), path=f.path_to(n))
    # broadcasting a single value is reserved for non-sequences: a sequence of the wrong length must be rejected
    for q in (f'{VC}.add_variable', f'{VC}.__setattr__'):
        f = Fn(R, q, inline_methods=True)
        for n in f.cfg.nodes:
            a = n.ast
            if n.kind == 'stmt' and isinstance(a, ast.Assign) and is_call(a.value, 'np.full', 'numpy.full') and a.value.args and text(a.value.args[0]) in SPAN_LEN:
                g = [(text(x), truth) for (x, truth, _t) in f.guard_atoms(n.id)]
                pv = (f.fi.params() + ['value'])[2] if len(f.fi.params()) > 2 else 'value'

                def seq_test(x: ast.AST) -> bool:
                    # an isinstance(<value>, T) test whose T covers Sequence
                    return any(is_call(y, 'isinstance') and len(y.args) == 2 and text(y.args[0]) == pv
                               and any(isinstance(z, ast.Name) and z.id == 'Sequence' for z in ast.walk(y.args[1])) for y in ast.walk(x))

                ok = any((not truth) and seq_test(x) for (x, truth, _t) in f.guard_atoms(n.id)) or (f'isinstance({pv}, str)', True) in g
                R.check(ok, q, 'broadcast-only-scalars:' + ';'.join(f'{a_}={t}' for a_, t in g)[:80], 'only a non-sequence value is broadcast to the span length',
                        f'`{n.label()[:60]}` broadcasts under {g}: a sequence (e.g. of length 1) can be broadcast instead of raising DimensionError',
                        where=f.where(n))
    R.expect('containers', sites, 4, 'statements that replace a series backing array')
    # no other function of the package replaces a backing array
    extra = []
    for fi in R.repo.all_functions():
        if fi.qualname in (f'{VC}.add_variable', f'{VC}.__setattr__', f'{VC}.reindex', 'fsic.extensions.model.TracerMixin.__init__'):
            continue
        for n in iter_own_nodes(fi.node):
            if isinstance(n, ast.Assign) and len(n.targets) == 1:
                ds = dict_slot(n.targets[0])
                if ds is not None and is_underscore_key(ds[1]) is not None:
                    extra.append((fi, n))
    for (fi, n) in extra:
        R.violation(fi.qualname, 'unlisted-writer:' + stmt_key(n), f'`{text(n)[:70]}` replaces a series backing array outside the four audited writers',
                    where=f'{fi.module.relpath}:{n.lineno}')
    if not extra:
        R.ok('fsic/*', 'no other function replaces a backing array (who-may-write)')


FRESH_CALLS = ('np.array', 'numpy.array', 'np.full', 'numpy.full', 'np.zeros', 'np.ones', 'np.empty', 'np.copy', 'numpy.copy', 'np.hstack', 'np.vstack', 'np.concatenate',
               'np.full_like', 'np.zeros_like', 'np.arange', 'copy.deepcopy', 'copy.copy')
FRESH_METHODS = ('copy', 'flatten', 'tolist')
VIEW_CALLS = ('np.asarray', 'numpy.asarray', 'np.require', 'numpy.require', 'np.atleast_1d', 'np.ravel', 'np.reshape', 'np.asanyarray', 'np.squeeze')
VIEW_METHODS = ('ravel', 'reshape', 'view', 'squeeze', 'transpose')


def _freshness(f: Fn, nid: int, v: ast.AST, depth: int = 0) -> Tuple[str, str]:
    """('fresh' | 'alias' | 'unknown', what) for the array an expression yields: does it own its memory, or may it be
    (a view of) an object the caller still holds?"""
    if depth > 8:
        return ('unknown', 'definition chain too long')
    if isinstance(v, ast.Call):
        d = dotted(v.func)
        if d in FRESH_CALLS:
            cp = kwarg(v, 'copy')
            if cp is not None and isinstance(cp, ast.Constant) and cp.value is False and v.args:
                return _freshness(f, nid, v.args[0], depth + 1)
            return ('fresh', d)
        if d in VIEW_CALLS and v.args:
            return _freshness(f, nid, v.args[0], depth + 1)
        if isinstance(v.func, ast.Attribute):
            m = v.func.attr
            if m == 'astype':
                cp = kwarg(v, 'copy')
                if cp is not None and not (isinstance(cp, ast.Constant) and cp.value is True):
                    return _freshness(f, nid, v.func.value, depth + 1)
                return ('fresh', '.astype()')
            if m in FRESH_METHODS:
                return ('fresh', f'.{m}()')
            if m in VIEW_METHODS:
                return _freshness(f, nid, v.func.value, depth + 1)
        return ('unknown', f'`{text(v)[:40]}`')
    if isinstance(v, ast.Subscript):
        return _freshness(f, nid, v.value, depth + 1)
    if isinstance(v, ast.IfExp):
        a, b = _freshness(f, nid, v.body, depth + 1), _freshness(f, nid, v.orelse, depth + 1)
        for k in ('alias', 'unknown'):
            for x in (a, b):
                if x[0] == k:
                    return x
        return a
    if isinstance(v, ast.Name):
        if v.id in f.fi.params():
            defs = f.lf.defs_reaching(nid, v.id)
            if PARAM in defs:
                return ('alias', f'the argument `{v.id}`')
        res = []
        for (s, dv) in f.lf.values_reaching(nid, v.id):
            if s == PARAM:
                res.append(('alias', f'the argument `{v.id}`'))
            elif dv is None:
                res.append(('unknown', f'`{v.id}` bound by `{f.cfg.nodes[s].label()[:40]}`'))
            else:
                res.append(_freshness(f, s, dv, depth + 1))
        for k in ('alias', 'unknown'):
            for x in res:
                if x[0] == k:
                    return x
        return res[0] if res else ('unknown', f'`{v.id}` has no definition')
    if isinstance(v, (ast.List, ast.Tuple, ast.ListComp, ast.Constant, ast.BinOp)):
        return ('fresh', 'a new object')
    return ('unknown', f'`{text(v)[:40]}`')


def r1b_fresh_arrays(R) -> None:
    """Every array installed as a series' backing store owns its memory: never (a view of) an object handed in by the
    caller.  Otherwise two series - or a series and the caller's data - share storage, and writing one writes the other."""
    for q in (f'{VC}.add_variable', f'{VC}.__setattr__', f'{VC}.reindex', 'fsic.extensions.model.TracerMixin.__init__'):
        f = Fn(R, q, inline_methods=True)
        for (n, owner, key, v) in _whole_array_stores(f):
            kind, what = _freshness(f, n.id, v)
            if kind == 'unknown':
                raise Unknown(f'{q}: cannot tell whether `{text(v)[:50]}` stored by `{n.label()[:60]}` owns its memory ({what})')
            R.check(kind == 'fresh', q, f'fresh-array:{stmt_key(n.ast)}', 'the array installed as backing store is a new array',
                    f'`{n.label()[:70]}` can install {what} itself (or a view of it) as the backing array: the series would share memory with the caller\'s object '
                    f'(two variables initialised from one array, or later changes to that array, write through)', where=f.where(n))


def r2_dtype(R) -> None:
    f = Fn(R, f'{VC}.__setattr__', inline_methods=True)
    stores = _whole_array_stores(f)
    for (n, owner, key, v) in stores:
        name_expr = is_underscore_key(key)
        old = f"{owner}.__dict__['_' + {text(name_expr)}]"
        ok = False
        src = None
        if isinstance(v, ast.Name):
            vals = f.lf.values_reaching(n.id, v.id)
            if len(vals) == 1:
                src = vals[0][1]
        else:
            src = v
        if src is not None and is_call(src, 'np.array', 'numpy.array', 'np.asarray'):
            d = kwarg(src, 'dtype')
            ok = d is not None and f.etext(n.id, d) == old + '.dtype'
        elif src is not None and method_call(src, 'astype'):
            ok = f.etext(n.id, src.args[0]) == old + '.dtype'
        R.check(ok, f.q, f'dtype:{text(src)[:60] if src is not None else "?"}', 'a replaced series is built with the old series\' dtype',
                f'`{text(src)[:70] if src is not None else text(v)}` does not impose the existing dtype `{old}.dtype`', where=f.where(n))
    # scalar path: in-place slice store
    inplace = [n for n in f.cfg.nodes if n.kind == 'stmt' and isinstance(n.ast, ast.Assign) and isinstance(n.ast.targets[0], ast.Subscript)
               and isinstance(n.ast.targets[0].slice, ast.Slice) and dict_slot(_read_target(f, n, n.ast.targets[0].value)) is not None]
    R.check(len(inplace) == 1 and text(inplace[0].ast.targets[0].slice) == ':', f.q, 'scalar-inplace', 'a scalar is broadcast in place (`[:] =`), keeping shape and dtype',
            'the scalar path does not assign through `[:]`', where=f.fi.where)
    # values setters
    for q in (f'{VC}.values.setter', f'{MI}.values.setter'):
        g = Fn(R, q)
        calls = [x for x in ast.walk(g.fi.node) if is_self_call(x, '__setattr__')]
        R.require(q, len(calls), 'self.__setattr__(name, <row>) per row', fi=g.fi, minimum=2, pred=lambda x: is_self_call(x, '__setattr__'))
        for c in calls:
            if len(c.args) != 2:
                continue
            cn = [n for n in g.cfg.nodes if n.ast is not None and n.kind == 'stmt' and any(x is c for x in ast.walk(n.ast))]
            if not cn:
                raise Unsupported(f'{q}: __setattr__ call not found in the CFG')
            lt = tuple(x.id for lid in cn[0].loops for x in ast.walk(g.cfg.nodes[lid].ast.target) if isinstance(x, ast.Name)) if cn[0].loops else ()
            v = g.expand(cn[0].id, c.args[1], stop=lt)
            memo = g.local_memo_read(cn[0].id, v)
            if memo is not None:
                v = memo
            nm_ = text(c.args[0])
            olds = {f"self.__getattribute__('_' + {nm_})", f"self.__dict__['_' + {nm_}]", f"getattr(self, '_' + {nm_})", f'self[{nm_}]', f'self.__getitem__({nm_})'}
            ok = False
            if method_call(v, 'astype') and len(v.args) == 1:
                ok = text(v.args[0]) in {o + '.dtype' for o in olds}
            elif is_call(v, 'np.full', 'numpy.full') and v.args:
                d = kwarg(v, 'dtype')
                ok = d is not None and text(d) in {o + '.dtype' for o in olds} and text(v.args[0]) in {o + '.shape' for o in olds}
            R.check(ok, q, f'values-row:{text(v)[:50]}', 'each row is coerced to the dtype (and shape) of the series it replaces',
                    f'`{text(v)[:70]}` does not coerce the row to the existing series dtype', where=f'{g.fi.module.relpath}:{c.lineno}')
        # shape check raises DimensionError
        rs = g.raises('DimensionError')
        R.require(q, len(rs), 'raise DimensionError on shape mismatch', fi=g.fi, pred=lambda x: isinstance(x, ast.Raise))
        for r in rs:
            atoms = [(text(a), truth) for (a, truth, _t) in g.guard_atoms(r.id)]
            nv = (g.fi.params() + ['new_values'])[1] if len(g.fi.params()) > 1 else 'new_values'
            R.check(g.holds(r.id, f'{nv}.shape != self.values.shape'), q, 'values-shape-guard', 'a replacement array must have exactly the shape of `values`',
                    f'DimensionError guard is {atoms}', where=g.where(r))
    # reindex
    h = Fn(R, f'{VC}.reindex')
    for (n, owner, key, v) in _whole_array_stores(h):
        d = kwarg(v, 'dtype') if isinstance(v, ast.Call) else None
        nm_ = text(is_underscore_key(key)) if is_underscore_key(key) is not None else 'name'
        R.check(d is not None and h.etext(n.id, d, stop=(nm_,)) in (f'self[{nm_}].dtype', f"self.__dict__['_' + {nm_}].dtype"), h.q, 'reindex-dtype', 'reindexed series keep the old dtype',
                f'`{text(v)[:70]}` does not use the old series dtype', where=h.where(n))


def r3_raise_before_store(R) -> None:
    for q in (f'{VC}.add_variable', f'{VC}.__setattr__', f'{VC}.add_attribute'):
        f = Fn(R, q, inline_methods=True)
        eff = effect_nodes(f.cfg, effects_of(R.repo))
        for r in f.raises():
            fwd = f.cfg.reachable_from(f.cfg.entry)
            bad = [e for e in eff if e in fwd and r.id in f.cfg.reachable_from(e) and e != r.id]
            cls = raised_class(r.ast)
            if bad:
                en = f.cfg.nodes[bad[0]]
                R.violation(q, f'effect-before-raise:{cls}<-{stmt_key(en.ast)}',
                            f'`{en.label()[:60]}` changes the container on a path to `raise {cls}`: a rejected assignment would not leave everything unchanged',
                            where=f.where(en))
            else:
                R.ok(q, f'nothing is changed on any path to `raise {cls}` (L{r.lineno})')
    # bulk and keyed assignment: unknown names raise KeyError and nothing is created
    rv = Fn(R, f'{VC}.replace_values')
    calls = [x for x in ast.walk(rv.fi.node) if is_self_call(x)]
    ok = len(calls) == 1 and calls[0].func.attr == '__setitem__' and len(calls[0].args) == 2
    R.check(ok, rv.q, 'replace-via-setitem:' + (text(calls[0].func) if calls else '?'), 'replace_values assigns through __setitem__ (unknown names raise KeyError)',
            f'replace_values assigns through `{text(calls[0].func) if calls else "?"}`: an unknown name would be created as a plain attribute instead of raising KeyError',
            where=rv.fi.where)
    si = Fn(R, f'{VC}.__setitem__')
    whole = si.nodes_with(lambda x: is_self_call(x, '__setattr__'))
    for n in whole:
        g = [(text(a), truth) for (a, truth, _t) in si.guard_atoms(n.id)]
        call = [x for x in ast.walk(n.ast) if is_self_call(x, '__setattr__')][0]
        nm = text(call.args[0]) if call.args else 'key'
        ok = any(si.holds(n.id, f'{nm} in {idx_}') or si.holds(n.id, f'{nm} not in {idx_}', False) for idx_ in ("self.__dict__['index']", 'self.index'))
        R.check(ok, si.q, 'setitem-unknown-name', 'obj[name] = value for an unknown name raises KeyError before anything is set',
                f'the whole-series path of __setitem__ is guarded by {g}: an unknown name is not rejected', where=si.where(n))
    # the (name, label) / (name, label slice) paths: the series is found as `'_' + name` in __dict__, so the name must be known to
    # be a variable there too - `'_' + name` also names the container's own bookkeeping (`_attributes`, `_strict`)
    for n in si.cfg.nodes:
        a = n.ast
        if n.kind == 'stmt' and isinstance(a, ast.Assign) and len(a.targets) == 1 and isinstance(a.targets[0], ast.Subscript):
            ds = dict_slot(a.targets[0].value)
            nm = is_underscore_key(ds[1]) if ds is not None and ds[0] == 'self' else None
            if nm is None:
                continue
            known = any(si.holds(n.id, f'{text(nm)} in {idx_}') or si.holds(n.id, f'{text(nm)} not in {idx_}', False) for idx_ in ("self.__dict__['index']", 'self.index'))
            R.check(known, si.q, f'setitem-label-unknown-name:{stmt_key(a)[:50]}', 'obj[name, label] = value for a name that is not a variable raises KeyError before anything is set',
                    f"`{text(a)[:70]}` looks the series up as '_' + {text(nm)} without checking that `{text(nm)}` is a variable: obj['attributes', 0] = x overwrites the container's own "
                    f"list of attribute names (`_attributes`) instead of raising KeyError, with strict=True too", where=si.where(n))
    # add_variable keeps the new series under '_' + name: that slot must be free - the container's own bookkeeping lives
    # under such keys too (`_attributes`, `_strict`; `_LAGS` / `_LEADS` on a linker), and a variable of that name would replace it
    av_ = Fn(R, f'{VC}.add_variable')
    for n in av_.cfg.nodes:
        a = n.ast
        if n.kind == 'stmt' and isinstance(a, ast.Assign) and len(a.targets) == 1:
            ds = dict_slot(a.targets[0])
            nm = is_underscore_key(ds[1]) if ds is not None and ds[0] == 'self' else None
            if nm is None:
                continue
            key_ = text(ds[1])
            free = av_.holds(n.id, f'{key_} in self.__dict__', False) or av_.holds(n.id, f'{key_} not in self.__dict__') \
                or av_.holds(n.id, f"hasattr(self, {key_})", False)
            R.check(free, av_.q, 'add-variable-slot-free', "add_variable only takes a storage slot ('_' + name) that is not in use",
                    f"`{text(a)[:60]}` stores the new series under {key_} without checking that the entry is free: add_variable('attributes', 1) replaces the container's list of "
                    f"attribute names (`_attributes`) with an array, add_variable('strict', 0) its strict flag - every later attribute assignment then fails, and strict mode is lost",
                    where=av_.where(n))
    # ... and the other way round: an attribute is kept in the same namespace under its own name, so add_attribute() (which
    # `obj.<new name> = x` ends in when strict is off) must not take a name that is a key of that namespace already - `_X` is
    # where the variable X keeps its array
    aa = Fn(R, f'{VC}.add_attribute')
    sets = aa.nodes_with(lambda x: (isinstance(x, ast.Call) and isinstance(x.func, ast.Attribute) and x.func.attr == '__setattr__' and len(x.args) == 2)
                         or (is_call(x, 'setattr', 'object.__setattr__') and len(x.args) == 3))
    stores_ = [n for n in aa.cfg.nodes if n.kind == 'stmt' and isinstance(n.ast, ast.Assign) and len(n.ast.targets) == 1 and dict_slot(n.ast.targets[0]) is not None
               and dict_slot(n.ast.targets[0])[0] == 'self']
    if R.require(aa.q, len(sets) + len(stores_), 'the store of the new attribute', fi=aa.fi, pred=lambda x: isinstance(x, ast.Call) and isinstance(x.func, ast.Attribute) and x.func.attr == '__setattr__'):
        pname = (aa.fi.params() + ['self', 'name'])[1]
        for n in sets + stores_:
            free = aa.holds(n.id, f'{pname} in self.__dict__', False) or aa.holds(n.id, f'{pname} not in self.__dict__') or aa.holds(n.id, f'hasattr(self, {pname})', False)
            R.check(free, aa.q, 'add-attribute-slot-free', 'add_attribute only takes a name that is not a key of the object namespace already',
                    f"`{text(n.ast)[:60]}` stores the new attribute without checking that its name is free in `__dict__`: with strict off, `obj._X = 5` (or add_attribute('_X', 5)) "
                    f"replaces the array of the variable X, which is kept under '_X', by the number 5 - X is no longer a series and `values` no longer variables by periods",
                    where=aa.where(n))
    # ModelInterface.add_variable: names extended only after the base call succeeded
    g = Fn(R, f'{MI}.add_variable')
    base = g.nodes_with(lambda x: is_super_call(x, 'add_variable'))
    app = g.nodes_with(lambda x: method_call(x, 'append') and 'names' in text(x.func.value))
    if R.require(g.q, len(base), 'super().add_variable(...)', fi=g.fi, pred=lambda x: is_super_call(x, 'add_variable')) and \
            R.require(g.q, len(app), "names.append(name)", fi=g.fi, pred=lambda x: method_call(x, 'append')):
        R.check(base[0].id in g.dom[app[0].id], g.q, 'names-after-base', 'names is extended only after the variable was added',
                'names.append(...) can run before (or without) the base add_variable', where=g.where(app[0]))
        c = [x for x in ast.walk(app[0].ast) if method_call(x, 'append')][0]
        R.check(text(c.args[0]) == 'name', g.q, 'names-append-arg', 'the appended entry is the new variable name', f'appends `{text(c.args[0])}`', where=g.where(app[0]))


def r4_strict(R) -> None:
    f = Fn(R, f'{VC}.__setattr__', inline_methods=True)
    rs = f.raises('AttributeError')
    if not R.require(f.q, len(rs), 'raise AttributeError under strict', fi=f.fi, pred=lambda x: isinstance(x, ast.Raise)):
        return
    r = rs[0]
    # the strict test is the outermost test guarding the raise
    tn = None
    for (tid, lab) in f.guards_of(r.id):
        t = f.cfg.nodes[tid]
        if t.kind == 'test' and lab == 'T' and '_strict' in text(t.ast):
            tn = t
    if tn is None:
        raise Unsupported(f'{f.q}: strict guard not recognised')
    from fsa.match import conj_atoms
    atoms = {text(a) for a in conj_atoms(tn.ast)}
    # names that are properties with a setter on the container classes (`values`, `strict`): assigning to one is an update
    # through its setter, never a new attribute - it must not be caught by the strict guard
    props = set()
    for q3, fi3 in R.repo.functions.items():
        if q3.endswith('.setter') and fi3.cls is not None and (q3.startswith(VC + '.') or q3.startswith(MI + '.')):
            props.add(fi3.node.name)
    PROP_TEST = ('isinstance(getattr(type(self), name, None), property)', 'isinstance(getattr(self.__class__, name, None), property)')
    by_property = [t for t in f.tests() if any(p_ in text(t.ast) for p_ in PROP_TEST) and t.id in f.dom[tn.id]]
    exempt = set()
    for a_ in atoms:
        for p_ in props:
            if a_ in (f"name != '{p_}'", f'name != "{p_}"'):
                exempt.add(p_)
    if any(p_ in a_ for a_ in atoms for p_ in PROP_TEST) or by_property:
        exempt = set(props)
    for p_ in sorted(props - exempt):
        R.violation(f.q, f'strict-blocks-property:{p_}',
                    f"with strict=True, `obj.{p_} = x` is rejected as a new attribute (AttributeError) although `{p_}` is a property with a setter: the bulk replacement of all values "
                    f"works on a strict container only if it was used once before strict was switched on (the first use registers '{p_}' as an attribute)", where=f.where(tn))
    core = {a_ for a_ in atoms if not any(a_ in (f"name != '{p_}'", f'name != "{p_}"') for p_ in props) and not any(p_ in a_ for p_ in PROP_TEST)}
    want = {"self.__dict__['_strict']", "name not in self.__dict__['index']", "name not in self.__dict__['_attributes']"}
    R.check(core == want, f.q, 'strict-guard:' + ';'.join(sorted(atoms))[:150],
            'strict blocks exactly: a new name that is neither a property, a variable nor an existing attribute',
            f'strict guard is {sorted(atoms)}; expected {sorted(want)} (plus the exemption of property names)', where=f.where(tn))
    for m, pred in (('add_attribute', lambda x: is_self_call(x, 'add_attribute')), ('super().__setattr__', lambda x: is_super_call(x, '__setattr__'))):
        ns = f.nodes_with(pred)
        for n in ns:
            if any(f.holds(n.id, p_) for p_ in PROP_TEST):
                continue        # the property branch: handled by the property's own setter
            R.check(tn.id in f.dom[n.id], f.q, f'strict-dominates:{m}', f'the strict guard precedes {m}', f'{m} can run without passing the strict guard',
                    where=f.where(n))
    av = R.repo.func(f'{VC}.add_variable')
    R.check('_strict' not in text(av.node) and 'strict' not in [x.id for x in ast.walk(av.node) if isinstance(x, ast.Name)], av.qualname, 'add_variable-ungated',
            'add_variable keeps working under strict', 'add_variable consults strict', where=av.where)
    # near-miss suggestion
    R.check(any(is_self_call(x, 'get_closest_match') for x in ast.walk(f.fi.node)), f.q, 'closest-match', 'a near-miss name is reported with the closest variable',
            'no get_closest_match() in the strict error path', where=f.fi.where)


def _names_list_of_values(fi, R=None) -> Optional[str]:
    cands = list(ast.walk(fi.node))
    if R is not None:
        # a list filled by one append in one loop is read as the comprehension it is equivalent to
        try:
            f = Fn(R, fi.qualname)
            for r in f.returns():
                for x in ast.walk(r.ast.value) if r.ast.value is not None else []:
                    if isinstance(x, ast.Name):
                        lc = f.as_listcomp(r.id, x)
                        if lc is not None:
                            cands.append(lc)
        except (Unsupported, AnchorMissing):
            pass
    for n in cands:
        if isinstance(n, ast.ListComp) and is_call(n.elt, 'self.__getattribute__') or (isinstance(n, ast.ListComp) and dict_slot(n.elt) is not None):
            g = n.generators[0]
            arg = n.elt.args[0] if isinstance(n.elt, ast.Call) else dict_slot(n.elt)[1]
            if is_underscore_key(arg) is not None and text(is_underscore_key(arg)) == text(g.target) and not g.ifs:
                return text(g.iter)
    return None


def _names_list_of_size(fi) -> Optional[str]:
    rets = [n for n in ast.walk(fi.node) if isinstance(n, ast.Return)]
    if len(rets) != 1:
        return None
    v = rets[0].value
    if isinstance(v, ast.BinOp) and isinstance(v.op, ast.Mult):
        l, r = v.left, v.right
        for a, b in ((l, r), (r, l)):
            if is_call(a, 'len') and is_call(b, 'len') and text(b.args[0]) in ("self.__dict__['span']", 'self.span'):
                return text(a.args[0])
    return None


def _same_list(a: str, b: str) -> bool:
    norm = lambda s: s.replace("self.__dict__['", 'self.').replace("']", '')
    return norm(a) == norm(b)


def r5_values_size(R) -> None:
    for cls_q in (VC, MI, 'fsic.core.models.BaseModel', 'fsic.core.linkers.BaseLinker'):
        mro = c3_mro(R.repo, cls_q)
        fv = resolve_method(R.repo, mro, 'values')
        fs = resolve_method(R.repo, mro, 'size')
        if fv is None or fs is None:
            raise AnchorMissing(f'{cls_q}: values/size not resolvable')
        lv = _names_list_of_values(fv, R)
        ls = _names_list_of_size(fs)
        if lv is None:
            raise Unknown(f'{fv.qualname}: `values` is not a stack of "_"+name over a name list')
        if ls is None:
            # not len(L) * len(span): positively different if it aggregates other objects
            src = text(fs.node)
            if 'sizes' in src or 'submodels' in src:
                R.violation(cls_q, 'size-vs-values', f'{cls_q.split(".")[-1]}.size ({fs.qualname.split(".")[-2]}.size) counts the submodels\' elements while `values` '
                            f'({fv.qualname.split(".")[-2]}.values) stacks only the object\'s own variables: size != values.size', where=fs.where)
                continue
            raise Unknown(f'{fs.qualname}: `size` is not len(<names>) * len(span)')
        R.check(_same_list(lv, ls), cls_q, f'size-vs-values:{lv}|{ls}', f'{cls_q.split(".")[-1]}: size counts the name list that values stacks',
                f'{cls_q.split(".")[-1]}: values stacks `{lv}` but size counts `{ls}`', where=fs.where)


def run(R) -> None:
    R.explanation = (
        'C09: who-may-write of series backing arrays (four audited writers, none elsewhere); for each, a shape provenance of the stored '
        'array (np.full(len(span)) / comprehension over span / flatten / unknown rank) combined with DimensionError guards found on the '
        'false edges guarding the store (length, ndim); dtype taken from the old series on every replacement; no effect node on any path '
        'to a raise in add_variable/__setattr__/add_attribute; strict guard conjuncts and dominance; values/size over the same name list '
        'per class via the MRO (BaseLinker: K7). Does not decide NumPy casting results.'
    )
    R.rule('C09.R1', lambda: r1_shape_safe(R))
    R.rule('C09.R1b', lambda: r1b_fresh_arrays(R))
    R.rule('C09.R2', lambda: r2_dtype(R))
    R.rule('C09.R3', lambda: r3_raise_before_store(R))
    R.rule('C09.R4', lambda: r4_strict(R))
    R.rule('C09.R5', lambda: r5_values_size(R))
