"""C14 - layout of the script does not matter; the normal form is a fixed point.

Thin (a metamorphic property over all programs x layouts).  Decided: R1
statements are parsed independently (no loop-carried data, no global writes),
R2 comments/blank statements, R3 whitespace tolerance of the tokeniser (regex
AST), R4 template normalisation passes, R5 explicit [0] == no index.
"""

from __future__ import annotations

import ast
from typing import List, Set

from fsa.escape import Escape
from fsa.flow import PARAM
from fsa.match import Unknown, dotted, is_call, is_const, method_call, nnf_atoms, root_name
from fsa.effects import MUTATORS
from fsa.source import Unsupported, iter_own_nodes, text
from rules.common import Fn, module_bound_names
from rules.solver_common import fsic_hierarchy
from rules import c01

P = 'fsic.parser'


def global_writes(fi, module_names: Set[str]) -> List[ast.AST]:
    """Writes whose root is a module-level name not shadowed by a local."""
    local: Set[str] = set()
    a = fi.node.args
    for p_ in a.posonlyargs + a.args + a.kwonlyargs:
        local.add(p_.arg)
    if a.vararg:
        local.add(a.vararg.arg)
    if a.kwarg:
        local.add(a.kwarg.arg)
    declared_global: Set[str] = set()
    for n in iter_own_nodes(fi.node):
        if isinstance(n, (ast.Global, ast.Nonlocal)):
            declared_global |= set(n.names)
        if isinstance(n, ast.Name) and isinstance(n.ctx, ast.Store):
            local.add(n.id)
        if isinstance(n, (ast.FunctionDef, ast.ClassDef)):
            local.add(n.name)
    local -= declared_global
    out: List[ast.AST] = []
    for n in iter_own_nodes(fi.node):
        if isinstance(n, (ast.Global, ast.Nonlocal)):
            out.append(n)
        tgts = []
        if isinstance(n, ast.Assign):
            tgts = n.targets
        elif isinstance(n, (ast.AugAssign, ast.AnnAssign)):
            tgts = [n.target]
        for t in tgts:
            for x in ast.walk(t):
                if isinstance(x, (ast.Attribute, ast.Subscript)) and isinstance(x.ctx, ast.Store):
                    r = root_name(x)
                    if r is not None and r not in local and r in module_names:
                        out.append(n)
                if isinstance(x, ast.Name) and isinstance(x.ctx, ast.Store) and x.id in declared_global:
                    out.append(n)
        if isinstance(n, ast.Call) and isinstance(n.func, ast.Attribute) and n.func.attr in MUTATORS:
            r = root_name(n.func.value)
            if r is not None and r not in local and r in module_names:
                out.append(n)
    return out


def r1_independent(R) -> None:
    f = Fn(R, f'{P}.parse_model')
    calls = f.nodes_with(lambda x: is_call(x, 'parse_equation'))
    if not R.require(f.q, len(calls), 'parse_equation(statement) per statement', fi=f.fi, pred=lambda x: is_call(x, 'parse_equation')):
        return
    n = calls[0]
    c = [x for x in ast.walk(n.ast) if is_call(x, 'parse_equation')][0]
    lp = [f.cfg.nodes[i] for i in n.loops]
    ok = False
    if lp:
        tnames = {x.id for x in ast.walk(lp[-1].ast.target) if isinstance(x, ast.Name)}
        ok = len(c.args) >= 1 and isinstance(c.args[0], ast.Name) and c.args[0].id in tnames \
            and f.lf.defs_reaching(n.id, c.args[0].id) == frozenset([lp[-1].id])
        # further arguments: options of parse_model itself (the same for every statement), never state carried by the loop
        params = set(f.fi.params())
        for extra in list(c.args[1:]) + [k.value for k in c.keywords]:
            names = {x.id for x in ast.walk(extra) if isinstance(x, ast.Name)}
            fixed = all(nm in params and all(s_ == PARAM for (s_, _v) in f.lf.values_reaching(n.id, nm)) for nm in names)
            ok = ok and (isinstance(extra, ast.Constant) or (bool(names) and fixed))
    R.check(ok, f.q, 'per-statement-argument:' + text(c), 'each statement is parsed from the loop variable alone (nothing carried between statements)',
            f'`{text(c)}`: the argument is not just the current statement', where=f.where(n))
    # no global / nonlocal writes in the parser call graph
    esc = Escape(R.repo, P, fsic_hierarchy(R.repo))
    reach = esc.reachable_functions(f'{P}.parse_model')
    mod_names = module_bound_names(R.repo, P)
    total = 0
    for fq in sorted(reach):
        fi = R.repo.func(fq)
        R.saw_function(fi)
        ws = global_writes(fi, mod_names)
        total += 1
        for w in ws:
            # a memo table: `D[key] = value` next to a lookup of the same key.  Keyed by plain values (texts, tuples of
            # them) it is as good as its key is complete - which is not decided here; keyed by an object whose state the
            # value depends on (the key stays the same while the state changes) it goes stale: that stays a violation
            if isinstance(w, ast.Assign) and isinstance(w.targets[0], ast.Subscript) and isinstance(w.targets[0].value, ast.Name):
                D_, k_ = w.targets[0].value.id, w.targets[0].slice
                g_ = Fn(R, fq)
                wn = [n_ for n_ in g_.cfg.nodes if n_.ast is w]
                kt = g_.etext(wn[0].id, k_) if wn else text(k_)
                looked_up = any((method_call(x, 'get') and text(x.func.value) == D_ and x.args and g_.etext(n_.id, x.args[0]) == kt)
                                or (isinstance(x, ast.Subscript) and isinstance(x.ctx, ast.Load) and text(x.value) == D_ and g_.etext(n_.id, x.slice) == kt)
                                or (isinstance(x, ast.Compare) and len(x.ops) == 1 and isinstance(x.ops[0], (ast.In, ast.NotIn)) and text(x.comparators[0]) == D_
                                    and g_.etext(n_.id, x.left) == kt)
                                for n_ in g_.cfg.nodes if n_.ast is not None for x in ast.walk(n_.ast))
                params_ = set(fi.params())
                whole_objects = [x.id for x in ast.walk(ast.parse(kt, mode='eval')) if isinstance(x, ast.Name) and x.id in params_ | {'self'}]
                parents_ = {id(c_): p_ for p_ in ast.walk(ast.parse(kt, mode='eval')) for c_ in ast.iter_child_nodes(p_)}
                if looked_up and not any(nm_ == 'self' for nm_ in whole_objects):
                    from rules.parser_roles import TermMatch, term_match_qualname
                    from rules import memo as _memo
                    lab_ = _memo.owned(R.repo, w)
                    if lab_ is not None and not any(f_.kind == 'unread-match' for f_ in _memo.findings(R.repo) if f_.cache == lab_):
                        R.ok(fq, f'`{text(w)[:50]}` fills the cache `{lab_}`: whether its key is complete is decided by rule C14.M')
                        continue
                    verdicts = []
                    try:
                        if fq == term_match_qualname(R):
                            verdicts = [v_ for v_ in TermMatch(R).memo if f'`{D_}`' in v_[1]]
                    except (Unsupported, Exception):
                        verdicts = []
                    if verdicts and all(v_[0] == 'ok' for v_ in verdicts):
                        R.ok(fq, verdicts[0][1])
                        continue
                    if any(v_[0] == 'bad' for v_ in verdicts):
                        bad_ = [v_ for v_ in verdicts if v_[0] == 'bad'][0]
                        R.violation(fq, 'memo-key-incomplete', bad_[1] + ' - what a statement parses to depends on the statements parsed before it', where=bad_[2])
                        continue
                    raise Unknown(f'{fq}: `{text(w)[:60]}` fills a memo table keyed by `{kt[:50]}`: whether that key determines the cached value (so that the parse of a '
                                  f'statement does not depend on earlier ones) is not decided')
            from rules import memo as _memo
            lab_ = _memo.owned(R.repo, w)
            if lab_ is not None and not any(f_.kind == 'unread-match' for f_ in _memo.findings(R.repo) if f_.cache == lab_):
                R.ok(fq, f'`{text(w)[:50]}` fills the cache `{lab_}`: whether its key is complete is decided by rule C14.M')
                continue
            R.violation(fq, 'global-write:' + text(w)[:60], f'`{text(w)[:70]}` writes module-level state: the parse of one statement could depend on earlier ones',
                        where=f'{fi.module.relpath}:{w.lineno}')
        if not ws:
            R.ok(fq, 'writes no module-level / nonlocal state', trivial=True)
    R.expect(P, total, 10, 'functions in the parser call graph')
    # a memoised function of the call graph whose (mutable) result a caller changes in place: the next statement with the
    # same text gets the changed object back - the parse of a statement would depend on the statements seen before
    CACHES = ('functools.lru_cache', 'lru_cache', 'functools.cache', 'cache')
    for fq in sorted(reach):
        fi = R.repo.func(fq)
        cached = [d for d in fi.node.decorator_list if dotted(d.func if isinstance(d, ast.Call) else d) in CACHES]
        if not cached:
            continue
        users = []
        for gq in sorted(reach):
            gi = R.repo.func(gq)
            g_ = Fn(R, gq)
            for n in g_.cfg.nodes:
                a_ = n.ast
                if n.kind == 'stmt' and isinstance(a_, ast.Assign) and len(a_.targets) == 1 and isinstance(a_.targets[0], ast.Name) and is_call(a_.value, fi.name):
                    nm = a_.targets[0].id
                    for m in g_.cfg.nodes:
                        if m.ast is None or m.kind != 'stmt' or n.id not in g_.lf.defs_reaching(m.id, nm):
                            continue
                        for x in ast.walk(m.ast):
                            if isinstance(x, ast.Subscript) and isinstance(x.ctx, (ast.Store, ast.Del)) and isinstance(x.value, ast.Name) and x.value.id == nm:
                                users.append((g_, m))
                            if isinstance(x, ast.Call) and isinstance(x.func, ast.Attribute) and x.func.attr in MUTATORS and isinstance(x.func.value, ast.Name) and x.func.value.id == nm:
                                users.append((g_, m))
        for (g_, m) in users:
            R.violation(fq, f'memoised-result-mutated:{g_.q.split(".")[-1]}', f'`{fi.name}()` is memoised ({text(cached[0])[:40]}) and `{g_.q.split(".")[-1]}` changes its result in place '
                        f'(`{m.label()[:60]}`): the cached object is handed out again for the same text, so what a statement parses to depends on earlier statements',
                        where=g_.where(m))
        if not users:
            R.ok(fq, f'memoised ({text(cached[0])[:30]}); no caller changes the result in place')
    # a memoised function whose mutable result a public function hands out as it is: every caller gets the one cached
    # object, and whatever any of them does to it is what the same statement text "parses to" from then on
    wrapped = {}
    for st in R.repo.module(P).tree.body:
        if isinstance(st, ast.Assign) and len(st.targets) == 1 and isinstance(st.targets[0], ast.Name) and isinstance(st.value, ast.Call) \
                and len(st.value.args) == 1 and isinstance(st.value.args[0], ast.Name) \
                and dotted(st.value.func.func if isinstance(st.value.func, ast.Call) else st.value.func) in CACHES:
            wrapped[st.targets[0].id] = st.value.args[0].id
    for fi in R.repo.functions.values():
        if fi.qualname.startswith(P + '.') and fi.qualname.count('.') == P.count('.') + 1 and \
                any(dotted(d.func if isinstance(d, ast.Call) else d) in CACHES for d in fi.node.decorator_list):
            wrapped[fi.name] = fi.name

    def mutable_result(fname: str) -> bool:
        try:
            fn_ = R.repo.func(f'{P}.{fname}').node
        except Exception:
            return False
        rets = [x.value for x in iter_own_nodes(fn_) if isinstance(x, ast.Return) and x.value is not None]
        return bool(rets) and all(isinstance(v, (ast.List, ast.ListComp, ast.Dict, ast.DictComp, ast.Set, ast.SetComp)) or is_call(v, 'list') or is_call(v, 'dict') or is_call(v, 'set')
                                  for v in rets)

    for cname, fname in sorted(wrapped.items()):
        if not mutable_result(fname):
            continue
        for gi in R.repo.functions.values():
            if not gi.qualname.startswith(P + '.') or gi.name.startswith('_') or gi.qualname.count('.') != P.count('.') + 1:
                continue
            g_ = None
            for x in iter_own_nodes(gi.node):
                if isinstance(x, ast.Return) and x.value is not None:
                    v = x.value
                    if isinstance(v, ast.Name):
                        g_ = g_ or Fn(R, gi.qualname)
                        rn = [n_ for n_ in g_.cfg.nodes if n_.ast is x]
                        vals = g_.lf.values_reaching(rn[0].id, v.id) if rn else []
                        if vals and all(dv is not None and is_call(dv, cname) for (_s, dv) in vals) and v.id not in g_.mutated_in_place():
                            v = vals[0][1]
                    if is_call(v, cname):
                        R.violation(gi.qualname, f'memoised-result-handed-out:{cname}',
                                    f'`{text(x)[:70]}` returns the object held in the cache of `{cname}` (a list built once per distinct text): every caller of {gi.name}() gets the same '
                                    f'mutable object, so an in-place change by one caller (`+=`, sort, append) changes what the same statement parses to afterwards - copy it (`list(...)`)',
                                    where=f'{gi.module.relpath}:{x.lineno}')
    # the merge is a left fold in statement order (C03.R6 owns the detail)
    from rules import c03
    c03.r6_first_appearance(R)


def _brackets_counted_on_stripped_text(R) -> None:
    """Wherever the splitter counts round brackets (a loop over the characters comparing with '(' / ')', or `.count('(')`), the
    text counted has been through strip_comments: a bracket inside a comment must not decide where a statement ends."""
    esc = Escape(R.repo, P, fsic_hierarchy(R.repo))
    reach = {q_ for q_ in esc.reachable_functions(f'{P}.split_equations_iter') if q_.startswith(P + '.')}
    # generators consumed by name (`for block in group_lines(model)`) are on the call graph already
    n_sites = 0
    for q_ in sorted(reach):
        fi = R.repo.func(q_)
        g = None
        for n in iter_own_nodes(fi.node):
            counted = None
            if isinstance(n, ast.For) and isinstance(n.target, ast.Name) and isinstance(n.iter, ast.Name):
                cmp_ = [x for x in ast.walk(n) if isinstance(x, ast.Compare) and len(x.ops) == 1 and isinstance(x.ops[0], ast.Eq) and text(x.left) == n.target.id
                        and (is_const(x.comparators[0], '(') or is_const(x.comparators[0], ')'))]
                if cmp_:
                    counted = n.iter
            elif method_call(n, 'count') and n.args and (is_const(n.args[0], '(') or is_const(n.args[0], ')')) and isinstance(n.func.value, ast.Name):
                counted = n.func.value
            if counted is None:
                continue
            n_sites += 1
            g = g or Fn(R, q_)
            node = [m for m in g.cfg.nodes if m.ast is not None and (m.ast is n or (m.kind in ('stmt', 'test') and any(x is n for x in ast.walk(m.ast))))]
            if not node:
                raise Unknown(f'{q_}: the bracket count of `{counted.id}` was not located in the flow graph')
            verdicts = []
            for (s_, dv) in g.lf.values_reaching(node[0].id, counted.id):
                src = g.cfg.nodes[s_] if s_ != PARAM else None
                if src is not None and src.kind == 'for':
                    it = src.ast.iter
                    if is_call(it, 'enumerate') and it.args:
                        it = it.args[0]
                    if is_call(it, 'map') and len(it.args) == 2 and text(it.args[0]) == 'strip_comments':
                        verdicts.append('stripped')
                    elif method_call(it, 'splitlines') and isinstance(it.func.value, ast.Name) and it.func.value.id in fi.params() \
                            and all(s2 == PARAM for (s2, _v) in g.lf.values_reaching(src.id, it.func.value.id)):
                        verdicts.append('raw')
                    else:
                        verdicts.append('?')
                elif dv is not None and is_call(dv, 'strip_comments'):
                    verdicts.append('stripped')
                else:
                    verdicts.append('?')
            where = f'{fi.module.relpath}:{n.lineno}'
            if verdicts and all(v == 'stripped' for v in verdicts):
                R.check(True, q_, f'brackets-counted-on-stripped:{counted.id}', 'round brackets are counted on comment-free text', '', where=where)
            elif 'raw' in verdicts:
                R.violation(q_, f'brackets-counted-on-raw:{counted.id}',
                            f'round brackets are counted on `{counted.id}`, a raw line of the script (comment included): a `(` or `)` inside a comment changes where the statement ends '
                            f'(`Y = X  # (note` swallows the following lines) - inserting a comment changes the parse', where=where)
            else:
                raise Unknown(f'{q_}: whether `{counted.id}` (whose round brackets are counted) is comment-free was not decided')
    R.expect(P, n_sites, 1, 'places where the splitter counts round brackets')


def _strip_comments_paths(R, sc_) -> None:
    """Every exit of strip_comments returns text free of `#`: either the part before the first `#`, or the line itself on a
    path where a test has established that the line has no `#` (position == -1, `'#' not in line`, empty partition separator).
    A raw-line exit guarded only by tests that do not imply that (the comment text being empty, the position being <= 0) keeps
    the `#` in the statement for exactly the lines that pass the test."""
    f = Fn(R, sc_.qualname)
    params = [a.arg for a in sc_.node.args.args]
    if len(params) != 1:
        raise Unsupported(f'{sc_.qualname}: expected one parameter (the line), found {params}')
    line = params[0]
    # names bound by unpacking line.partition('#') / line.rpartition is not a cut at the first '#'
    parts = {}
    for n in f.cfg.nodes:
        if n.kind == 'stmt' and isinstance(n.ast, ast.Assign) and len(n.ast.targets) == 1 and isinstance(n.ast.targets[0], ast.Tuple):
            v = f.expand(n.id, n.ast.value)
            if method_call(v, 'partition') and text(v.func.value) == line and len(v.args) == 1 and is_const(v.args[0], '#') and len(n.ast.targets[0].elts) == 3:
                for k, t in enumerate(n.ast.targets[0].elts):
                    if isinstance(t, ast.Name) and len(f.assigns_to(t.id)) <= 1:
                        parts[t.id] = ('prefix', 'sep', 'tail')[k]

    def kind(nid: int, e: ast.AST):
        e = f.expand(nid, e, stop=tuple(parts))
        while isinstance(e, ast.Call) and isinstance(e.func, ast.Attribute) and e.func.attr in ('rstrip', 'strip', 'lstrip') and not e.keywords:
            e = e.func.value
        if isinstance(e, ast.Name):
            if e.id == line and not f.assigns_to(line):
                return 'raw'
            return parts.get(e.id)
        if isinstance(e, ast.IfExp):
            # an arm that is the whole line counts as cut where the test establishes that there is no `#`
            arms = []
            for arm, truth in ((e.body, True), (e.orelse, False)):
                k = kind(nid, arm)
                if k == 'raw' and any(no_hash(nid, a, t) is True for (a, t) in nnf_atoms(e.test, truth)):
                    k = 'prefix'
                arms.append(k)
            return arms[0] if arms[0] == arms[1] else None
        if method_call(e, 'find', 'index') and text(e.func.value) == line and len(e.args) == 1 and is_const(e.args[0], '#'):
            return 'pos'
        if isinstance(e, ast.Subscript):
            b = e.value
            if isinstance(b, ast.Name) and b.id == line and isinstance(e.slice, ast.Slice) and e.slice.lower is None and e.slice.step is None \
                    and e.slice.upper is not None and kind(nid, e.slice.upper) == 'pos':
                return 'prefix'
            if isinstance(e.slice, ast.Constant) and isinstance(e.slice.value, int) and text(getattr(getattr(b, 'func', None), 'value', ast.Name(id='')) ) == line \
                    and b.args and is_const(b.args[0], '#'):
                if method_call(b, 'partition') and len(b.args) == 1:
                    return {0: 'prefix', 1: 'sep', 2: 'tail'}.get(e.slice.value)
                if method_call(b, 'split') and e.slice.value == 0:
                    return 'prefix'
        return None

    def no_hash(nid: int, a: ast.AST, truth: bool):
        """True: the atom establishes that the line has no `#`; False: it is understood and does not; None: not understood."""
        if isinstance(a, ast.Compare) and len(a.ops) == 1:
            l, op, r = a.left, a.ops[0], a.comparators[0]
            if isinstance(op, (ast.In, ast.NotIn)) and is_const(l, '#') and kind(nid, r) == 'raw':
                return isinstance(op, ast.NotIn) == truth
            k = kind(nid, l)
            c = r.value if isinstance(r, ast.Constant) else (-r.operand.value if isinstance(r, ast.UnaryOp) and isinstance(r.op, ast.USub) and isinstance(r.operand, ast.Constant) else None)
            if k == 'pos' and isinstance(c, int):
                # the set of positions (>= -1) admitted by the atom is exactly {-1}
                ops = {ast.Eq: lambda p: p == c, ast.NotEq: lambda p: p != c, ast.Lt: lambda p: p < c, ast.LtE: lambda p: p <= c,
                       ast.Gt: lambda p: p > c, ast.GtE: lambda p: p >= c}
                fn = ops.get(type(op))
                if fn is None:
                    return None
                admitted = [p for p in range(-1, 6) if fn(p) == truth]
                return admitted == [-1]
            if k == 'sep' and isinstance(c, str) and isinstance(op, (ast.Eq, ast.NotEq)):
                return (c == '') == (isinstance(op, ast.Eq) == truth) if c in ('', '#') else None
            if k in ('tail', 'prefix'):
                return False
            return None
        k = kind(nid, a)
        if k == 'sep':
            return not truth
        if k in ('tail', 'prefix', 'raw'):
            return False
        return None

    rets = [r for r in f.returns() if r.ast is not None and getattr(r.ast, 'value', None) is not None]
    if not R.require(sc_.qualname, len(rets), 'return of the stripped line', fi=f.fi, pred=lambda x: isinstance(x, ast.Return)):
        return
    for r in rets:
        k = kind(r.id, r.ast.value)
        key = 'exit:' + text(r.ast.value)[:50]
        if k == 'prefix':
            R.check(True, sc_.qualname, key, 'this exit returns the text before the first `#`', '', where=f.where(r))
            continue
        if k != 'raw':
            R.inconclusive(sc_.qualname, f'`return {text(r.ast.value)[:60]}` ({f.where(r)}) is not recognised as the line cut at its first `#`, nor as the line itself')
            continue
        verdicts = [(a, t, no_hash(tn.id, a, t)) for (a, t, tn) in f.xguard_atoms(r.id, stop=tuple(parts))]
        if any(v is True for (_a, _t, v) in verdicts):
            R.check(True, sc_.qualname, key, 'the line is returned whole only where a test has established that it has no `#`', '', where=f.where(r))
            continue
        decided = all(v is False for (_a, _t, v) in verdicts)
        g = ' and '.join(('' if t else 'not ') + text(a)[:40] for (a, t, _v) in verdicts) or 'no test at all'
        msg = (f'`return {text(r.ast.value)[:40]}` hands back the whole line under `{g}`, which does not establish that the line has no `#`: '
               f'a line that passes the test and still has a `#` keeps its comment in the statement')
        if decided:
            R.check(False, sc_.qualname, key, '', msg, decided=True, where=f.where(r))
        else:
            # a test this rule does not understand may well establish it
            R.inconclusive(sc_.qualname, msg + ' (one of the tests is not understood by this rule)')


def r2_comments_blanks(R) -> None:
    _brackets_counted_on_stripped_text(R)
    q = f'{P}.split_equations_iter'
    f = Fn(R, q)
    loops = [n for n in f.cfg.nodes if n.kind == 'for' and not n.loops and 'splitlines' in text(n.ast.iter)]
    if not R.expect(q, len(loops), 1, 'main loop over the lines'):
        return
    lp = loops[0]
    it = lp.ast.iter
    tgt = text(lp.ast.target)
    if is_call(it, 'enumerate') and isinstance(lp.ast.target, ast.Tuple) and len(lp.ast.target.elts) == 2 and isinstance(lp.ast.target.elts[1], ast.Name):
        tgt = lp.ast.target.elts[1].id
        it = it.args[0]
    # which names hold the comment-free line inside the loop: the loop variable itself when the lines are mapped
    # through strip_comments, else locals (the loop variable included, when rebound) defined as strip_comments(<raw line>)
    mapped = is_call(it, 'map') and len(it.args) == 2 and text(it.args[0]) == 'strip_comments' and 'splitlines' in text(it.args[1])
    stripped_defs = [n for n in f.cfg.nodes if n.kind == 'stmt' and lp.id in n.loops and isinstance(n.ast, ast.Assign) and len(n.ast.targets) == 1
                     and isinstance(n.ast.targets[0], ast.Name) and is_call(n.ast.value, 'strip_comments') and len(n.ast.value.args) == 1
                     and text(n.ast.value.args[0]) == tgt]
    raw_uses = []
    if not mapped:
        for n in f.cfg.nodes:
            if n.ast is None or lp.id not in n.loops or n.kind not in ('stmt', 'test', 'for'):
                continue
            roots = [n.ast.test] if n.kind == 'test' and hasattr(n.ast, 'test') else ([n.ast.iter] if n.kind == 'for' else [n.ast])
            for root in roots:
                wrapped = {id(y) for x in ast.walk(root) if is_call(x, 'strip_comments') for y in ast.walk(x)}
                for x in ast.walk(root):
                    if isinstance(x, ast.Name) and x.id == tgt and isinstance(x.ctx, ast.Load) and id(x) not in wrapped \
                            and lp.id in f.lf.defs_reaching(n.id, tgt):
                        raw_uses.append((n, x))
    ok = mapped or (bool(stripped_defs) and not raw_uses)
    why_bad = f'the line loop `for {tgt} in {text(it)[:50]}` does not strip comments from every line'
    if raw_uses:
        why_bad = f'`{raw_uses[0][0].label()[:60]}` reads the raw line `{tgt}` (comment included): text after `#` would be buffered or counted'
    R.check(ok, q, 'strip-every-line:' + text(it)[:50], 'comments are stripped from every physical line before buffering',
            why_bad, where=f.where(raw_uses[0][0] if raw_uses else lp))
    line_names = {tgt} if mapped else {text(d.ast.targets[0]) for d in stripped_defs}
    # strip_comments: cut at the first '#'
    sc_ = R.repo.func(q + '.<locals>.strip_comments')
    finds = [x for x in ast.walk(sc_.node) if method_call(x, 'find', 'index', 'partition', 'split') and x.args and is_const(x.args[0], '#')]
    if finds:
        R.check(True, sc_.qualname, 'strip-at-hash', 'a comment starts at the first `#`', '', where=sc_.where)
    else:
        # another way of cutting (a regular expression, a scan) is not a finding; the exits are read below
        R.inconclusive(sc_.qualname, 'strip_comments does not locate `#` with find/index/partition/split: how it cuts the line is not understood by this rule')
    _strip_comments_paths(R, sc_)
    # blank statements are skipped
    ys = [n for n in f.cfg.nodes if n.ast is not None and n.kind == 'stmt' and any(isinstance(x, ast.Yield) for x in ast.walk(n.ast))]
    if R.require(q, len(ys), 'yield of a statement', fi=f.fi, pred=lambda x: isinstance(x, ast.Yield)):
        g = [text(a) for (a, truth, _t) in f.guard_atoms(ys[0].id) if truth]
        R.check(any(x.endswith('.strip()') for x in g), q, 'skip-blank', 'a statement that is blank after stripping is skipped, not yielded',
                'the yield is not guarded by a non-blank test', where=f.where(ys[0]))
    # the buffer is reset after each complete statement
    # (the buffer is the list every line is appended to)
    bufs = {x.func.value.id for n in f.cfg.nodes if lp.id in n.loops and n.ast is not None and n.kind == 'stmt' for x in ast.walk(n.ast)
            if method_call(x, 'append') and isinstance(x.func.value, ast.Name) and len(x.args) == 1 and text(x.args[0]) in line_names}
    if len(bufs) != 1:
        raise Unsupported(f'{q}: the line buffer is not identified (lists the current line is appended to: {sorted(bufs)})')
    buf = sorted(bufs)[0]
    resets = [n for n in f.assigns_to(buf) if lp.id in n.loops and (text(n.ast.value) in ('[]', 'list()'))]
    resets += [n for n in f.cfg.nodes if lp.id in n.loops and n.ast is not None and n.kind == 'stmt' and
               (any(method_call(x, 'clear') and text(x.func.value) == buf for x in ast.walk(n.ast)) or text(n.ast) in (f'del {buf}[:]', f'{buf}[:] = []'))]
    R.check(bool(resets), q, 'buffer-reset', 'the buffer restarts after each complete statement', 'the buffer is not reset inside the loop', where=f.where(lp))


def r4_normalisation(R) -> None:
    """The template every term is rendered into has been through the three whitespace passes, the collapse first.
    Read on the *value* of the format() receiver (definitions and pure helpers read through), not on statement text."""
    q = f'{P}.parse_equation'
    f = Fn(R, q)
    want = [(r'\s+', ' ', 'runs of whitespace collapse to one space'), (r'\(\s+', '(', 'no space after an opening bracket'),
            (r'\s+\)', ')', 'no space before a closing bracket')]
    fm = []
    for n in f.cfg.nodes:
        if n.ast is not None and n.kind == 'stmt':
            for x in ast.walk(n.ast):
                if method_call(x, 'format') and not isinstance(x.func.value, ast.Constant):
                    fm.append((n, x))
    if not R.expect(q, len(fm), 1, 'format() calls rendering the terms into the template'):
        return
    # every re.sub pattern anywhere in the function (nested helpers included): tells "pass absent" from "pass elsewhere"
    anywhere = {x.args[0].value for x in ast.walk(f.fi.node) if is_call(x, 're.sub') and x.args and isinstance(x.args[0], ast.Constant)}
    for (n, call) in fm:
        # walk the receiver's value back through its definitions: re.sub(p, r, <earlier value>) passes, outermost first
        chain = []
        cur, at = call.func.value, n.id
        v = cur
        for _ in range(12):
            cur = f._inline_pure_calls(cur)
            if is_call(cur, 're.sub') and len(cur.args) == 3:
                chain.append((cur.args[0], cur.args[1]))
                cur = cur.args[2]
                continue
            if isinstance(cur, ast.Name) and cur.id in f.lf.locals:
                vals = f.lf.values_reaching(at, cur.id)
                if len(vals) == 1 and vals[0][0] != PARAM and vals[0][1] is not None and isinstance(f.cfg.nodes[vals[0][0]].ast, (ast.Assign, ast.AnnAssign)):
                    at, cur = vals[0][0], vals[0][1]
                    v = cur
                    continue
            break
        chain.reverse()
        consts = [(a_.value, b_.value) for (a_, b_) in chain if isinstance(a_, ast.Constant) and isinstance(b_, ast.Constant)]
        if len(consts) != len(chain):
            raise Unknown(f'{q}: a normalisation pass of `{text(call.func.value)}` has a non-constant pattern')
        order = {}
        for (pat, rep, why) in want:
            idx = [i for i, (p_, r_) in enumerate(consts) if p_ == pat and r_ == rep]
            if idx:
                order[pat] = idx[0]
                R.ok(q, f'{why}: the template rendered by `{text(call)[:50]}` has been through re.sub({pat!r}, {rep!r}, .)')
            elif pat in anywhere:
                raise Unknown(f'{q}: re.sub({pat!r}, ...) exists but not on the value of `{text(call.func.value)}` at `{text(call)[:50]}` '
                              f'(value read: `{text(v)[:80]}`)')
            else:
                R.violation(q, f'normalise-missing:{pat}', f'no normalisation pass `re.sub({pat!r}, {rep!r}, template)` ({why}); passes applied to the '
                            f'template: {[p_ for p_, _r in consts]}', where=f.fi.where, mismatch=True)
        if len(order) == 3:
            R.check(order[r'\s+'] < min(order[r'\(\s+'], order[r'\s+\)']), q, 'normalise-order',
                    'whitespace is collapsed before the bracket passes', 'the bracket passes run before the whitespace collapse', where=f.where(n))
        extra = [(p_, r_) for (p_, r_) in consts if (p_, r_) not in [(a_, b_) for (a_, b_, _w) in want]]
        if extra:
            raise Unknown(f'{q}: further rewriting of the template {extra} not in the idiom table')


def run(R) -> None:
    R.explanation = (
        'C14 (thin): parse_equation is called with the loop variable alone and no function of the parser call graph writes '
        'module-level/nonlocal state, so statements are parsed independently and the merge is the left fold of C03.R6; comments are '
        'stripped from every line and blank statements skipped; optional-whitespace facts of term_re (shared with C01.R5/R4); the '
        'three whitespace normalisation passes exist, in an order that yields the normal form, before format(). Does not decide '
        'equality of parses under every whitespace insertion nor idempotence of the normal form over all programs.'
    )
    R.rule('C14.R1', lambda: r1_independent(R))
    R.rule('C14.R2', lambda: r2_comments_blanks(R))
    R.rule('C14.R3', lambda: c01.r5_tokeniser(R))
    R.rule('C14.R4', lambda: r4_normalisation(R))
    R.rule('C14.R5', lambda: c01.r4_index_parsing(R))
