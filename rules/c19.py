"""C19 - tabular export and import are faithful round trips.

Thin (pandas coercions dominate).  R1 optional Symbol fields survive the round
trip, R2 model_to_dataframe, R3 linker export and flag forwarding, R4 from_dataframe.
"""

from __future__ import annotations

import ast
from typing import Dict, List, Optional, Set

from fsa.match import dotted, is_call, is_const, is_self_call, kwarg, method_call, has_star_args, has_star_kwargs
from fsa.source import Unsupported, iter_own_nodes, stmt_key, text
from rules.common import Fn

T = 'fsic.tools'
FLAGS = ['status', 'iterations', 'include_internal']


def _fold_type_tests(e: ast.AST) -> ast.AST:
    """`int is str` and the like (a table entry compared with a type name) decided, and the conditional folded."""
    import copy as _copy
    TYPES = {'int', 'str', 'float', 'bool', 'bytes', 'list', 'dict', 'tuple'}

    class T(ast.NodeTransformer):
        def visit_IfExp(self, node):
            self.generic_visit(node)
            t = node.test
            if isinstance(t, ast.Compare) and len(t.ops) == 1 and isinstance(t.left, ast.Name) and isinstance(t.comparators[0], ast.Name) \
                    and t.left.id in TYPES and t.comparators[0].id in TYPES and isinstance(t.ops[0], (ast.Is, ast.IsNot, ast.Eq, ast.NotEq)):
                same = t.left.id == t.comparators[0].id
                val = same if isinstance(t.ops[0], (ast.Is, ast.Eq)) else (not same)
                return node.body if val else node.orelse
            return node

    return ast.fix_missing_locations(T().visit(_copy.deepcopy(e)))


def r1_optional_fields(R) -> None:
    ci = R.repo.cls('fsic.parser.Symbol')
    optional: List[str] = []
    fields: List[str] = []
    for s in ci.node.body:
        if isinstance(s, ast.AnnAssign) and isinstance(s.target, ast.Name):
            fields.append(s.target.id)
            if text(s.annotation).startswith('Optional['):
                optional.append(s.target.id)
    R.expect('fsic.parser.Symbol', len(optional), 3, 'Optional[...] fields of Symbol')
    q = f'{T}.dataframe_to_symbols'
    fi = R.repo.func(q)
    R.saw_function(fi)
    # what each Optional field of a row is replaced by, as one gated value per field: constant keys, keys that run over a
    # tuple of names, keys (and a second loop variable) that run over a table `{name: <how to restore>}`; helpers read through
    from fsa.gated import canon, leaves
    from fsa.summ import _subst
    f = Fn(R, q)
    tables: Dict[str, Dict[str, ast.AST]] = {}
    for n in f.cfg.nodes:
        a_ = n.ast
        if n.kind == 'stmt' and isinstance(a_, (ast.Assign, ast.AnnAssign)) and isinstance(getattr(a_, 'value', None), ast.Dict) and all(isinstance(k_, ast.Constant) for k_ in a_.value.keys):
            tables[text(a_.targets[0] if isinstance(a_, ast.Assign) else a_.target)] = {k_.value: v_ for k_, v_ in zip(a_.value.keys, a_.value.values)}
    # the rows may be converted in a helper nested here (`[row_to_symbol(row) for ...]`): the function that builds
    # `Symbol(**<row>)` is the one to read (tables defined out here are in its scope, if it does not rebind them)
    builds = lambda fn_: any(is_call(x, 'Symbol') and any(k_.arg is None for k_ in x.keywords) for x in iter_own_nodes(fn_))
    if not builds(fi.node):
        nested = [s_ for s_ in fi.node.body if isinstance(s_, ast.FunctionDef) and builds(s_)]
        if len(nested) == 1:
            f = Fn(R, f'{q}.<locals>.{nested[0].name}')
            stored_in = {x.id for x in iter_own_nodes(nested[0]) if isinstance(x, ast.Name) and isinstance(x.ctx, ast.Store)}
            tables = {k_: v_ for k_, v_ in tables.items() if k_ not in stored_in}
    se = f.symexec()
    row = None
    per_field: Dict[str, ast.AST] = {}
    guards_of_field: Dict[str, list] = {}
    for n in f.cfg.nodes:
        a_ = n.ast
        if n.kind == 'stmt' and isinstance(a_, (ast.Assign, ast.AnnAssign)) and isinstance(getattr(a_, 'value', None), ast.Dict) and all(isinstance(k_, ast.Constant) for k_ in a_.value.keys):
            tables[text(a_.targets[0] if isinstance(a_, ast.Assign) else a_.target)] = {k_.value: v_ for k_, v_ in zip(a_.value.keys, a_.value.values)}
    for n in f.cfg.nodes:
        a_ = n.ast
        if not (n.kind == 'stmt' and isinstance(a_, ast.Assign) and isinstance(a_.targets[0], ast.Subscript) and isinstance(a_.targets[0].value, ast.Name)):
            continue
        k = a_.targets[0].slice
        rv = text(a_.targets[0].value)
        try:
            v = canon(se.value(a_, a_.value))
        except Exception:
            continue
        binds = []
        if isinstance(k, ast.Constant) and isinstance(k.value, str):
            binds = [(k.value, {})]
        elif isinstance(k, ast.Name) and n.loops:
            lp = f.cfg.nodes[n.loops[-1]]
            it, tg = lp.ast.iter, lp.ast.target
            if isinstance(it, (ast.Tuple, ast.List)) and all(isinstance(e_, ast.Constant) for e_ in it.elts) and isinstance(tg, ast.Name) and tg.id == k.id:
                binds = [(e_.value, {k.id: e_}) for e_ in it.elts]
            elif method_call(it, 'items') and text(it.func.value) in tables and isinstance(tg, ast.Tuple) and len(tg.elts) == 2 and text(tg.elts[0]) == k.id:
                binds = [(c_, {k.id: ast.Constant(value=c_), text(tg.elts[1]): e_}) for c_, e_ in tables[text(it.func.value)].items()]
        # the store itself may stand under tests (`if not isinstance(entry[key], str): entry[key] = None`): those facts
        # belong to every value it stores
        inner = n.loops[-1] if n.loops else None
        gfacts = [(a2, tr2) for (a2, tr2, tn2) in f.guard_atoms(n.id) if inner is not None and inner in tn2.loops]
        for (fld, env) in binds:
            if fld in fields:
                row = row or rv
                vv = _subst(v, env) if env else v
                if env:
                    # a converter taken from the table is read like a helper called by name
                    vv = canon(f._inline_pure_calls(vv))
                per_field[fld] = canon(_fold_type_tests(vv))
                guards_of_field[fld] = [((_subst(a2, env) if env else a2), tr2) for (a2, tr2) in gfacts]

    def own(e: ast.AST, fld: str) -> bool:
        # the row's own entry for the field, however the row is written at that point (`entry`, the evaluator's `entry@<line>`,
        # `dict(row)` with the items stored so far)
        return isinstance(e, ast.Subscript) and is_const(e.slice, fld)

    def missing_test(a_: ast.AST, tr: bool, fld: str) -> Optional[str]:
        """Is (a_, tr) a test that the field's own value is missing?  'none' | 'nan' | 'notstr'."""
        if isinstance(a_, ast.Compare) and len(a_.ops) == 1 and isinstance(a_.ops[0], ast.Is) and is_const(a_.comparators[0], None) and own(a_.left, fld) and tr:
            return 'none'
        if is_call(a_, 'np.isnan', 'numpy.isnan', 'math.isnan', 'pd.isna', 'pandas.isna', 'pd.isnull') and a_.args and own(a_.args[0], fld) and tr:
            return 'nan'
        if is_call(a_, 'isinstance') and len(a_.args) == 2 and own(a_.args[0], fld) and text(a_.args[1]) == 'str' and not tr:
            return 'notstr'
        if isinstance(a_, ast.BoolOp) and isinstance(a_.op, ast.Or) and tr:
            kinds = [missing_test(v_, True, fld) for v_ in a_.values]
            if all(kinds):
                return '+'.join(kinds)
        return None

    restored: Set[str] = set()
    for fld, v in per_field.items():
        for (facts, leaf) in leaves(v):
            if not is_const(leaf, None):
                continue
            facts = list(guards_of_field.get(fld, [])) + list(facts)
            kinds = [missing_test(a_, tr, fld) for (a_, tr) in facts]
            about_other = [(text(a_), tr) for (a_, tr), k_ in zip(facts, kinds) if k_ is None and not any(own(x, fld) for x in ast.walk(a_))]
            if fld in optional:
                R.check(not about_other, q, f'none-by-value:{fld}:' + ';'.join(t_ for t_, _ in about_other)[:60], f'{row}[{fld!r}] becomes None only when its own value is missing',
                        f'`{fld}` is set to None under {about_other}: the field is cleared because of something other than its own value (e.g. the symbol type), so a symbol '
                        f'that carries it (a verbatim block has equation and code) loses it', where=fi.where)
            if any(kinds) and not about_other:
                allk = '+'.join(k_ for k_ in kinds if k_)
                if fld in ('lags', 'leads'):
                    if 'nan' in allk:
                        restored.add(fld)
                else:
                    restored.add(fld)
        # the NaN test must not be applied to None (an all-missing column holds None, and np.isnan(None) raises TypeError)
        for x in ast.walk(v):
            if is_call(x, 'np.isnan', 'numpy.isnan', 'math.isnan') and x.args and own(x.args[0], fld):
                guarded = False
                for t in ast.walk(v):
                    if isinstance(t, ast.BoolOp) and isinstance(t.op, ast.Or) and any(v_ is x for v_ in t.values):
                        idx = [i for i, v_ in enumerate(t.values) if v_ is x][0]
                        guarded = any(missing_test(v_, True, fld) == 'none' for v_ in t.values[:idx])
                for (facts, leaf) in leaves(v):
                    seen_none = False
                    for (a_, tr) in facts:
                        if missing_test(a_, not tr, fld) == 'none' and not tr:
                            seen_none = True
                        if a_ is x and seen_none:
                            guarded = True
                R.check(guarded, q, f'isnan-none-guard:{fld}', 'a missing value that arrives as None is handled before the NaN test',
                        f'`{text(x)}` is applied without a preceding `{text(x.args[0])} is None` test: a table whose {fld} are all missing (verbatim-only script) raises TypeError',
                        where=fi.where)
    for fld in optional:
        if fld not in per_field:
            R.check(False, q, f'optional-restored:{fld}', '', f'Symbol.{fld} is Optional but dataframe_to_symbols has no not-a-value -> None conversion for it: pandas stores None as NaN, '
                    f'so the round trip returns {fld}=nan', where=fi.where)
            continue
        R.check(fld in restored, q, f'optional-restored:{fld}', f'Symbol.{fld} (Optional): a missing value comes back as None',
                f'Symbol.{fld} is Optional but what dataframe_to_symbols stores for it (`{text(per_field[fld])[:70]}`) does not turn a missing value (NaN'
                f'{" / a non-string" if fld not in ("lags", "leads") else ""}) into None: the round trip returns {fld}=nan', where=fi.where)
    # type is restored through the enum
    ok = any(isinstance(n, ast.Assign) and text(n.targets[0]) == "entry['type']" and is_call(n.value, 'Type') for n in ast.walk(fi.node))
    if not ok and 'type' in per_field:
        tv = per_field['type']
        ok = is_call(tv, 'Type') and len(tv.args) == 1 and own(tv.args[0], 'type')
    R.check(ok, q, 'type-restored', 'the type column is converted back to the Type enum', "`entry['type'] = Type(entry['type'])` not found", where=fi.where)
    ok = any(is_call(x, 'Symbol') and any(k_.arg is None and isinstance(k_.value, ast.Name) for k_ in x.keywords) for x in ast.walk(fi.node))
    R.check(ok, q, 'symbol-built', 'each row becomes Symbol(**entry)', 'rows are not rebuilt with Symbol(**entry)', where=fi.where)
    # export: one dict per symbol, in order
    sq = f'{T}.symbols_to_dataframe'
    sf = R.repo.func(sq)
    ok = any(is_call(x, 'DataFrame') and isinstance(x.args[0], ast.ListComp) and text(x.args[0].elt).endswith('._asdict()') and text(x.args[0].generators[0].iter) == 'symbols'
             for x in ast.walk(sf.node))
    R.check(ok, sq, 'export-rows', 'one row per symbol, all fields, in order', 'symbols_to_dataframe is not DataFrame([s._asdict() for s in symbols])', where=sf.where)


def r2_model_to_dataframe(R) -> None:
    """Read on the gated value of what the function returns: DataFrame({k: model[k] for k in <names>}, index=model.span)
    plus conditional item stores for the flags."""
    from fsa.gated import SymExec, canon, item_layers
    from fsa.match import nnf_atoms
    q = f'{T}.model_to_dataframe'
    f = Fn(R, q)
    model = (f.fi.params() + ['model'])[0]
    rets = f.returns()
    if not R.require(q, len(rets), 'return of the frame', fi=f.fi, pred=lambda x: isinstance(x, ast.Return)):
        return
    R.check(len(rets) == 1, q, 'returns-frame', 'the frame is returned', 'model_to_dataframe has several returns', where=f.fi.where)
    from fsa.gated import under_defaults
    se = f.symexec(deep=True)
    # options beyond the documented ones (model, include_internal, status, iterations) are read at their defaults
    v = canon(under_defaults(canon(se.value(rets[0].ast, rets[0].ast.value)), f.fi.node, keep=(model, 'include_internal', 'status', 'iterations')))
    base, items = item_layers(v)
    if not is_call(base, 'DataFrame', 'pandas.DataFrame', 'pd.DataFrame'):
        raise Unsupported(f'{q}: the returned object starts as `{text(base)[:70]}`, not a DataFrame(...)')
    c = base
    dc = c.args[0] if c.args else kwarg(c, 'data')
    names_expr = None
    ok = isinstance(dc, ast.DictComp) and len(dc.generators) == 1 and text(dc.key) == text(dc.generators[0].target) and text(dc.value) == f'{model}[{text(dc.key)}]' \
        and not dc.generators[0].ifs
    if ok:
        names_expr = dc.generators[0].iter
    R.check(ok, q, 'per-variable:' + (text(dc)[:60] if dc is not None else '?'), 'the frame is built variable by variable (dtypes preserved), in model order',
            f'`{text(dc)[:70] if dc is not None else text(c)[:70]}` does not build one column per variable from {model}[k] (stacking `values` would lose dtypes)',
            where=f.where(rets[0]))
    ix = kwarg(c, 'index')
    R.check(ix is not None and text(ix) == f'{model}.span', q, 'index-span', 'rows are indexed by the span', f'index is `{text(ix) if ix is not None else "<default>"}`', where=f.where(rets[0]))
    # names and the underscore filter
    if names_expr is not None:
        ne = names_expr
        plain = filt = None
        if isinstance(ne, ast.IfExp) and text(ne.test) == 'include_internal':
            plain, filt = ne.body, ne.orelse
        elif text(ne) == f'{model}.names':
            plain = ne
        else:
            filt = ne
        if plain is not None and is_call(plain, 'list') and len(plain.args) == 1:
            plain = plain.args[0]     # a copy of the list of names is the same columns
        R.check(plain is not None and text(plain) == f'{model}.names', q, 'names-source', 'columns follow model.names',
                f'with include_internal the columns are `{text(plain)[:60] if plain is not None else "<filtered anyway>"}`, not {model}.names', where=f.fi.where)
        okf = False
        if filt is not None and isinstance(ne, ast.IfExp) and isinstance(filt, ast.ListComp) and len(filt.generators) == 1:
            g = filt.generators[0]
            vv = text(g.target)
            conds = [(text(a_), tr) for c_ in g.ifs for (a_, tr) in nnf_atoms(c_, True)]
            okf = text(g.iter) == f'{model}.names' and text(filt.elt) == vv and conds == [(f"{vv}.startswith('_')", False)]
        R.check(okf, q, 'internal-filter', 'underscore-prefixed variables are dropped exactly when include_internal is false',
                'the underscore filter is missing, inverted or not conditional on `not include_internal`', where=f.fi.where)
    got = {}
    for (k, val, facts) in items:
        if isinstance(k, ast.Constant):
            got[k.value] = (text(val), [(text(a_), tr) for (a_, tr) in facts])
    for col in ('status', 'iterations'):
        if col not in got:
            R.require(q, 0, f"df['{col}'] = model.{col}", fi=f.fi, pred=lambda x: isinstance(x, ast.Subscript) and isinstance(x.ctx, ast.Store))
            continue
        val, facts = got[col]
        R.check(val == f'{model}.{col}' and facts == [(col, True)], q, f'column:{col}:{val}:{facts}', f'the {col} column is the series of that name, added under its flag',
                f"the `{col}` column receives `{val}` under {facts}: expected `{model}.{col}` under `if {col}:`", where=f.fi.where)
    extra = sorted(k for k in got if k not in ('status', 'iterations'))
    R.check(not extra, q, f'extra-columns:{extra}', 'no other column is added', f'columns {extra} are added to the frame', where=f.fi.where)
    # container export
    cq = 'fsic.core.containers.VectorContainer.to_dataframe'
    cf = R.repo.func(cq)
    ok = any(is_call(x, 'DataFrame') and isinstance(x.args[0], ast.DictComp) and text(x.args[0].generators[0].iter) == 'self.index'
             and text(x.args[0].value) == f'self[{text(x.args[0].key)}]' and text(kwarg(x, 'index') or ast.Constant(0)) == 'self.span' for x in ast.walk(cf.node))
    R.check(ok, cq, 'container-export', 'container export: one column per variable, indexed by span', 'VectorContainer.to_dataframe is not DataFrame({k: self[k] for k in self.index}, index=self.span)',
            where=cf.where)


def _effective_kwargs(fnode: ast.AST, call: ast.Call):
    """Keyword arguments of `call` with `**options` read through when `options` is a dict display with constant keys
    at the call (gated symbolic value); None if a `**` argument cannot be resolved."""
    out = {k.arg: k.value for k in call.keywords if k.arg is not None}
    stars = [k.value for k in call.keywords if k.arg is None]
    if not stars:
        return out
    from fsa.gated import SymExec
    se = SymExec(fnode)
    st = None
    for s_ in ast.walk(fnode):
        if isinstance(s_, ast.stmt) and id(s_) in se.before and any(x is call for x in ast.walk(s_)):
            if st is None or any(x is s_ for x in ast.walk(st)):
                st = s_
    if st is None:
        return None
    for sv in stars:
        v = se.value(st, sv)
        if isinstance(v, ast.Call) and isinstance(v.func, ast.Name) and v.func.id == 'dict' and not v.args:
            for k in v.keywords:
                if k.arg is None:
                    return None
                out.setdefault(k.arg, k.value)
            continue
        if not isinstance(v, ast.Dict):
            if isinstance(v, ast.Name) and v.id.split('@')[0] == 'kwargs':
                continue  # the function's own **kwargs passed on: carries no named flag
            return None
        for k, val in zip(v.keys, v.values):
            if not (isinstance(k, ast.Constant) and isinstance(k.value, str)):
                return None
            out[k.value] = val  # later keys win, and a ** after explicit keywords cannot repeat them
    return out


def _flags_forwarded(R, q: str, call: ast.Call, where: str, fnode: ast.AST = None) -> None:
    kws = _effective_kwargs(fnode, call) if fnode is not None else {k.arg: k.value for k in call.keywords if k.arg is not None}
    if kws is None:
        raise Unsupported(f'{q}: `{text(call)[:60]}` passes a ** mapping that is not a dict display at the call')
    for fl in FLAGS:
        v = kws.get(fl)
        R.check(isinstance(v, ast.Name) and v.id == fl, q, f'flag:{fl}:{text(v) if v is not None else None}', f'{fl} forwarded unchanged',
                f'`{text(call.func)}(...)` receives {fl}={text(v) if v is not None else "<missing>"}', where=where)


def r3_linker_export(R) -> None:
    q = f'{T}.linker_to_dataframes'
    f = Fn(R, q)
    calls = [x for x in ast.walk(f.fi.node) if method_call(x, 'to_dataframe')]
    # a frame made by calling the module's own export function on a model goes round that model's to_dataframe(): classes
    # that extend the export (aliases, extra columns) are not consulted
    lk0 = (f.fi.params() + ['linker'])[0]
    for x in ast.walk(f.fi.node):
        if is_call(x, 'model_to_dataframe') and x.args and text(x.args[0]) != lk0:
            R.violation(q, 'export-bypasses-method:' + text(x.args[0])[:30], f'`{text(x)[:70]}` builds the frame of `{text(x.args[0])}` with the module function instead of '
                        f'`{text(x.args[0])}.to_dataframe(...)`: a submodel whose class overrides to_dataframe() (AliasMixin renames columns) is exported without it',
                        where=f'{f.fi.module.relpath}:{x.lineno}')
            return
    if not R.require(q, len(calls), 'to_dataframe() for the linker and for each submodel', fi=f.fi, minimum=2, pred=lambda x: method_call(x, 'to_dataframe')):
        return
    owners = sorted(text(c.func.value) for c in calls)
    R.check(len(owners) == 2 and (f.fi.params() + ['linker'])[0] in owners, q, f'owners:{owners}', 'one frame for the linker, one per submodel', f'to_dataframe is called on {owners}', where=f.fi.where)
    for c in calls:
        _flags_forwarded(R, q, c, f'{f.fi.module.relpath}:{c.lineno}', f.fi.node)
    # the linker's own frame and the submodels' frames share one dictionary, keyed by linker.name and by the submodel ids: a
    # submodel whose id equals the linker's name (default '_') would replace the linker's frame - unless that is ruled out,
    # at construction or here
    li = Fn(R, 'fsic.core.linkers.BaseLinker.__init__')
    ps = li.fi.params()
    distinct = False
    for fn_ in (li, f):
        for r_ in fn_.raises():
            for (a_, tr_, _t) in fn_.guard_atoms(r_.id):
                ta = text(a_)
                if tr_ and isinstance(a_, ast.Compare) and len(a_.ops) == 1 and isinstance(a_.ops[0], ast.In) and 'name' in text(a_.left) and 'submodels' in text(a_.comparators[0]):
                    distinct = True
    R.check(distinct, q, 'linker-name-distinct', "the linker's own table cannot be replaced by a submodel's: a submodel id equal to the linker's name is rejected",
            "the frames of the linker and of its submodels go into one dictionary keyed by `linker.name` and by the submodel ids, and nothing keeps the two apart: "
            "BaseLinker({'A': m1, '_': m2}).to_dataframes() (default name '_') returns 2 tables for 3 objects - the submodel's table replaces the linker's", where=f.fi.where)
    # keys: the linker's frame under linker.name, each submodel's under its id
    lk = (f.fi.params() + ['linker'])[0]
    key_ok = {'linker': False, 'submodels': False}
    for d in ast.walk(f.fi.node):
        if isinstance(d, ast.Dict):
            for k, v in zip(d.keys, d.values):
                if k is not None and text(k) == f'{lk}.name' and method_call(v, 'to_dataframe') and text(v.func.value) == lk:
                    key_ok['linker'] = True
        if isinstance(d, ast.DictComp) and method_call(d.value, 'to_dataframe'):
            g = d.generators[0]
            tg = [x.id for x in ast.walk(g.target) if isinstance(x, ast.Name)]
            if text(g.iter) in (f'{lk}.submodels.items()', f"{lk}.__dict__['submodels'].items()") and len(tg) == 2 and text(d.key) == tg[0] and text(d.value.func.value) == tg[1] and not g.ifs:
                key_ok['submodels'] = True
    for n in f.cfg.nodes:
        a = n.ast
        if n.kind == 'stmt' and isinstance(a, ast.Assign) and isinstance(a.targets[0], ast.Subscript) and method_call(f.expand(n.id, a.value), 'to_dataframe'):
            v = f.expand(n.id, a.value)
            if text(a.targets[0].slice) == f'{lk}.name' and text(v.func.value) == lk and not n.loops:
                key_ok['linker'] = True
            dc = f.loop_store_comp(n) if n.loops else None
            if dc is not None:
                g = dc.generators[0]
                tg = [x.id for x in ast.walk(g.target) if isinstance(x, ast.Name)]
                if text(g.iter) in (f'{lk}.submodels.items()', f"{lk}.__dict__['submodels'].items()") and len(tg) == 2 and text(dc.key) == tg[0] \
                        and method_call(dc.value, 'to_dataframe') and text(dc.value.func.value) == tg[1] and not g.ifs:
                    key_ok['submodels'] = True
    R.check(key_ok['linker'] and key_ok['submodels'], q, 'keys',
            'frames are keyed by the linker name and the submodel ids', f'result keys are not linker.name / submodel ids ({key_ok})', where=f.fi.where)
    for mq, callee in (('fsic.core.models.BaseModel.to_dataframe', '_model_to_dataframe'), ('fsic.core.linkers.BaseLinker.to_dataframe', '_model_to_dataframe'),
                       ('fsic.core.linkers.BaseLinker.to_dataframes', '_linker_to_dataframes')):
        mf = R.repo.func(mq)
        cs = [x for x in ast.walk(mf.node) if is_call(x, callee)]
        if R.require(mq, len(cs), f'{callee}(self, ...)', fi=mf, pred=lambda x: isinstance(x, ast.Call)):
            R.check(cs[0].args and text(cs[0].args[0]) == 'self', mq, 'self-arg', 'the object itself is exported', f'`{text(cs[0])[:50]}`', where=mf.where)
            _flags_forwarded(R, mq, cs[0], mf.where, mf.node)
    # the aliases point at the tools functions
    for modname, alias, target in (('fsic.core.models', '_model_to_dataframe', 'model_to_dataframe'), ('fsic.core.linkers', '_linker_to_dataframes', 'linker_to_dataframes')):
        mod = R.repo.module(modname)
        ok = any(isinstance(s, ast.ImportFrom) and (s.module or '').endswith('tools') and any(a.name == target and a.asname == alias for a in s.names) for s in mod.tree.body)
        R.check(ok, modname, f'import:{alias}', f'{alias} is fsic.tools.{target}', f'`from ..tools import {target} as {alias}` not found')


def r4_from_dataframe(R) -> None:
    q = 'fsic.core.models.BaseModel.from_dataframe'
    f = Fn(R, q)
    rets = f.returns()
    if not R.require(q, len(rets), 'return cls(index, *args, **columns, **kwargs)', fi=f.fi, pred=lambda x: isinstance(x, ast.Return)):
        return
    c = rets[0].ast.value
    # the local that holds the span: by role (the first argument of the constructor call), whatever it is called
    IX = text(c.args[0]) if is_call(c, 'cls') and c.args and isinstance(c.args[0], ast.Name) else 'index'
    ok = is_call(c, 'cls') and c.args and text(c.args[0]) == IX and has_star_args(c, 'args') and has_star_kwargs(c, 'kwargs')
    R.check(ok, q, 'ctor-call:' + text(c)[:60], 'the model is built from the index and the columns', f'`{text(c)[:70]}`', where=f.where(rets[0]))
    # the columns: a dict comprehension in the call, or a local that holds one (read through)
    dcs = []
    for k in (c.keywords if isinstance(c, ast.Call) else []):
        if k.arg is None:
            dc_ = k.value if isinstance(k.value, ast.DictComp) else (f.as_dictcomp(rets[0].id, k.value) if isinstance(k.value, ast.Name) and k.value.id != 'kwargs' else None)
            if isinstance(dc_, ast.DictComp):
                dcs.append(dc_)
    ok = len(dcs) == 1 and text(dcs[0].generators[0].iter) == 'data.items()' and text(dcs[0].value).endswith('.values') and text(dcs[0].key) == text(dcs[0].generators[0].target.elts[0])
    shown = f.etext(rets[0].id, dcs[0].generators[0].iter)[:60] if len(dcs) == 1 else '?'
    R.check(ok, q, 'columns', "each column's values are passed under the column name",
            f'columns are not passed as {{name: column.values for name, column in data.items()}}: the columns come from `{shown}` (every column of the frame must arrive, '
            f'as it is)', where=f.where(rets[0]))
    # the frame is used as given (no re-ordering / re-binding before the span and the values are taken)
    rebinds = f.assigns_to('data')
    R.check(not rebinds, q, 'frame-as-given:' + (text(rebinds[0].ast)[:50] if rebinds else ''), 'span and values are taken from the frame as given',
            f'`{text(rebinds[0].ast)[:60] if rebinds else ""}` re-binds the frame before use: rows (periods) may be re-ordered or dropped', where=f.fi.where)
    ds = f.assigns_to(IX)
    first = [d for d in ds if text(d.ast.value) == 'data.index']
    conv = [d for d in ds if text(d.ast.value) == f'list({IX})']
    ok = len(first) == 1 and len(conv) == 1
    if ok:
        g = [(text(a), truth) for (a, truth, _t) in f.guard_atoms(conv[0].id)]
        ok = any(f'isinstance({IX}, (DatetimeIndex, MultiIndex, PeriodIndex, TimedeltaIndex))' in a and not truth for (a, truth) in g) or \
            any(f'not isinstance({IX}, (DatetimeIndex, MultiIndex, PeriodIndex, TimedeltaIndex))' in a and truth for (a, truth) in g)
    R.check(ok, q, 'span-from-index', "the span is the frame's index (kept for pandas time/multi indexes, else list(index))",
            'the span is not derived from data.index as documented', where=f.fi.where)


def run(R) -> None:
    R.explanation = (
        'C19 (thin): every Optional field of Symbol (table read from the NamedTuple) has a not-a-value -> None conversion in '
        'dataframe_to_symbols; model_to_dataframe builds the frame per variable from model[k] over model.names (filtered exactly when '
        'include_internal is false), indexed by span, with status/iterations columns under their flags; linker export: one frame per '
        'submodel plus the linker, flags forwarded identically through BaseModel/BaseLinker.to_dataframe(s); from_dataframe passes the '
        'index as span and each column\'s values by name. Does not decide dtype/value fidelity inside pandas.'
    )
    R.rule('C19.R1', lambda: r1_optional_fields(R))
    R.rule('C19.R2', lambda: r2_model_to_dataframe(R))
    R.rule('C19.R3', lambda: r3_linker_export(R))
    R.rule('C19.R4', lambda: r4_from_dataframe(R))
