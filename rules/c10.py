"""C10 - label-based access addresses exactly the labelled periods.

Thin: the core is library indexing semantics.  Decided: R1 inclusive stop,
R2 get/set symmetry, R3 KeyError discipline.
"""

from __future__ import annotations

import ast
from typing import Dict, List, Optional

from fsa.cfg import raised_class
from fsa.match import dict_slot, is_call, is_const, is_self_call, method_call
from fsa.source import Unsupported, iter_own_nodes, stmt_key, text
from rules.common import Fn

VC = 'fsic.core.containers.VectorContainer'


def r1_inclusive_stop(R) -> None:
    q = f'{VC}._resolve_period_slice'
    f = Fn(R, q)
    # defaults
    want = {'start': ("self.__dict__['span'][0]", 'self.span[0]'), 'stop': ("self.__dict__['span'][-1]", 'self.span[-1]'), 'step': ('1',)}
    for nm, vals in want.items():
        ds = [d for d in f.assigns_to(nm) if any(truth and text(a) == f'{nm} is None' for (a, truth, _t) in f.guard_atoms(d.id))]
        ok = len(ds) == 1 and text(ds[0].ast.value) in vals
        R.check(ok, q, f'default:{nm}:{text(ds[0].ast.value) if ds else None}', f'an open {nm} defaults to {vals[-1]}',
                f'default for an open `{nm}` is {text(ds[0].ast.value) if ds else "<missing>"}, expected {vals[-1]}', where=f.fi.where)
    # unpacking of the slice
    un = [n for n in f.cfg.nodes if n.kind == 'stmt' and isinstance(n.ast, ast.Assign) and isinstance(n.ast.targets[0], ast.Tuple)]
    ok = bool(un) and text(un[0].ast.targets[0]) in ('(start, stop, step)', 'start, stop, step') and text(un[0].ast.value) in ('(index.start, index.stop, index.step)',)
    R.check(ok, q, 'unpack', 'start/stop/step are read from the slice in that order', f'`{text(un[0].ast) if un else "?"}`', where=f.fi.where)
    # locations
    locs = {}
    for n in f.cfg.nodes:
        a = n.ast
        if n.kind == 'stmt' and isinstance(a, ast.Assign) and is_self_call(a.value, '_locate_period_in_span'):
            locs[text(a.targets[0])] = text(a.value.args[0])
    R.check(locs.get('start_location') == 'start' and locs.get('stop_location') == 'stop', q, f'locate:{locs}', 'start and stop labels are located separately',
            f'locations are computed as {locs}', where=f.fi.where)
    # the +1
    incs = [n for n in f.cfg.nodes if n.kind == 'stmt' and isinstance(n.ast, ast.AugAssign) and text(n.ast.target) == 'stop_location']
    if R.require(q, len(incs), 'stop_location += 1 (inclusive stop)', fi=f.fi, pred=lambda x: isinstance(x, ast.AugAssign)):
        n = incs[0]
        R.check(isinstance(n.ast.op, ast.Add) and is_const(n.ast.value, 1), q, 'inclusive:' + text(n.ast), 'the stop position is made inclusive by +1',
                f'`{text(n.ast)}` is not `stop_location += 1`', where=f.where(n))
        atoms = [(text(a), truth) for (a, truth, _t) in f.guard_atoms(n.id)]
        ok = ('isinstance(stop_location, slice)', False) in atoms and len(incs) == 1
        R.check(ok, q, 'inclusive-guard:' + repr(atoms)[:80], 'the +1 applies exactly when the located stop is not a slice',
                f'`stop_location += 1` is guarded by {atoms}; expected: only when not isinstance(stop_location, slice)', where=f.where(n))
    # slice hits: start -> .start, stop -> .stop
    for nm, attr in (('start_location', 'start'), ('stop_location', 'stop')):
        ds = [d for d in f.assigns_to(nm) if isinstance(d.ast, ast.Assign) and text(d.ast.value) == f'{nm}.{attr}']
        ok = len(ds) == 1 and any(truth and text(a) == f'isinstance({nm}, slice)' for (a, truth, _t) in f.guard_atoms(ds[0].id))
        R.check(ok, q, f'slice-hit:{nm}', f'a slice hit contributes its .{attr}', f'no `{nm} = {nm}.{attr}` under isinstance({nm}, slice)', where=f.fi.where)
    rets = f.returns()
    R.check(len(rets) == 1 and text(rets[0].ast.value) in ('(start_location, stop_location, step)',), q, 'return', 'returns (start, stop, step) positions',
            f'returns `{text(rets[0].ast.value) if rets else "?"}`', where=f.fi.where)


def _tuple_path(f: Fn):
    """Facts about the tuple-key path of __getitem__/__setitem__."""
    out = {}
    for n in f.cfg.nodes:
        a = n.ast
        if n.ast is None:
            continue
        if n.kind == 'stmt' and isinstance(a, ast.Assign) and isinstance(a.targets[0], ast.Tuple) and text(a.value) == 'key':
            out['unpack'] = text(a.targets[0])
        if n.kind == 'stmt' and isinstance(a, ast.Assign) and is_self_call(a.value, '_resolve_period_slice'):
            out['slice_helper'] = (text(a.targets[0]), text(a.value.args[0]))
        if n.kind == 'stmt' and isinstance(a, ast.Assign) and is_self_call(a.value, '_locate_period_in_span'):
            out['loc_helper'] = (text(a.targets[0]), text(a.value.args[0]))
    return out


def r2_get_set_symmetry(R) -> None:
    g = Fn(R, f'{VC}.__getitem__')
    s = Fn(R, f'{VC}.__setitem__')
    tg, ts = _tuple_path(g), _tuple_path(s)
    for k in ('unpack', 'slice_helper', 'loc_helper'):
        R.check(tg.get(k) is not None and tg.get(k) == ts.get(k), f'{VC}.__setitem__', f'symmetry:{k}:{tg.get(k)}|{ts.get(k)}',
                f'get and set resolve the key the same way ({k})', f'__getitem__ has {k}={tg.get(k)} but __setitem__ has {k}={ts.get(k)}', where=s.fi.where)
    # applications
    # get: values[start:stop:step], values[location] where values = self.__getattr__(name)
    rets = [r for r in g.returns() if isinstance(r.ast.value, ast.Subscript)]
    forms = sorted(text(r.ast.value.slice) for r in rets)
    R.check(forms == ['location', 'start_location:stop_location:step'], g.q, f'get-forms:{forms}', 'get applies [start:stop:step] / [location] to the series',
            f'__getitem__ returns subscripts {forms}', where=g.fi.where)
    bases = {text(r.ast.value.value) for r in rets}
    vals_ok = False
    if bases == {'values'}:
        ds = g.assigns_to('values')
        vals_ok = len(ds) == 1 and text(ds[0].ast.value) in ('self.__getattr__(name)', "self.__dict__['_' + name]")
    R.check(vals_ok, g.q, 'get-base', 'the indexed array is the series named by the key', f'__getitem__ indexes {bases}', where=g.fi.where)
    # set
    st = []
    for n in s.cfg.nodes:
        a = n.ast
        if n.kind == 'stmt' and isinstance(a, ast.Assign) and isinstance(a.targets[0], ast.Subscript) and dict_slot(a.targets[0].value) is not None:
            st.append((text(a.targets[0].value), text(a.targets[0].slice), text(a.value)))
    forms = sorted(x[1] for x in st)
    R.check(forms == ['location', 'start_location:stop_location:step'], s.q, f'set-forms:{forms}', 'set applies [start:stop:step] / [location] to the series',
            f'__setitem__ stores through subscripts {forms} (e.g. a slice without the step writes every period in between)', where=s.fi.where)
    R.check(all(x[0] == "self.__dict__['_' + name]" and x[2] == 'value' for x in st) and st, s.q, 'set-base', 'the value is written into the series named by the key',
            f'__setitem__ stores {st}', where=s.fi.where)
    # non-tuple path: whole array
    R.check(any(is_self_call(x, '__setattr__') and [text(a) for a in x.args] == ['key', 'value'] for x in ast.walk(s.fi.node)), s.q, 'set-whole',
            'a plain name key replaces the whole series through __setattr__', '__setitem__(name, value) does not delegate to __setattr__(key, value)', where=s.fi.where)
    R.check(any(is_self_call(x, '__getattr__') and [text(a) for a in x.args] == ['key'] for x in ast.walk(g.fi.node)), g.q, 'get-whole',
            'a plain name key returns the whole series', '__getitem__(name) does not return __getattr__(key)', where=g.fi.where)
    # unknown names raise KeyError in both
    for f in (g, s):
        ks = f.raises('KeyError')
        R.require(f.q, len(ks), 'KeyError for an unknown variable name', fi=f.fi, pred=lambda x: isinstance(x, ast.Raise))


def r3_keyerror_discipline(R) -> None:
    q = f'{VC}._locate_period_in_span'
    f = Fn(R, q)
    hs = [n for n in f.cfg.nodes if n.kind == 'except']
    R.expect(q, len(hs), 2, 'exception handlers around the search methods')
    for h in hs:
        broad = h.ast.type is None or text(h.ast.type).split('.')[-1] in ('Exception', 'BaseException')
        R.check(broad, q, f'handler-breadth:{text(h.ast.type) if h.ast.type else "bare"}', 'every failure of a search method is translated (except Exception)',
                f'handler `{h.label()}` catches only some exception classes: other failures of the search method (e.g. NotImplementedError for several '
                f'matches) would escape instead of KeyError', where=f.where(h))
        body = h.ast.body
        ok = len(body) == 1 and isinstance(body[0], ast.Raise) and text(body[0].exc) == 'KeyError(period)' \
            and isinstance(body[0].cause, ast.Name) and body[0].cause.id == h.ast.name
        R.check(ok, q, f'handler:{text(h.ast.type) if h.ast.type else "bare"}:{stmt_key(body[0])[:50]}',
                'a failed lookup surfaces as KeyError(period) chained to the cause',
                f'handler `{h.label()}` does `{text(body[0])[:60]}` instead of `raise KeyError(period) from e`: a missing label could alias another period',
                where=f.where(h))
    # every return is the result of a search call
    for r in f.returns():
        v = r.ast.value
        ok = isinstance(v, ast.Call) and len(v.args) >= 1 and text(v.args[0]) == 'period'
        R.check(ok, q, 'return:' + text(v)[:50], 'positions come only from a search method applied to the label',
                f'`return {text(v)[:50]}` returns a default position', where=f.where(r))
    # fallback
    fb = Fn(R, f'{VC}._locate_period_in_span_fallback')
    ks = fb.raises('KeyError')
    if R.require(fb.q, len(ks), 'raise KeyError when nothing matches', fi=fb.fi, pred=lambda x: isinstance(x, ast.Raise)):
        atoms = [(text(a), truth) for (a, truth, _t) in fb.guard_atoms(ks[0].id)]
        R.check(('len(positions) == 0', True) in atoms, fb.q, 'fallback-zero', 'zero matches raise KeyError', f'KeyError guard is {atoms}', where=fb.where(ks[0]))
    rets = fb.returns()
    for r in rets:
        atoms = [(text(a), truth) for (a, truth, _t) in fb.guard_atoms(r.id)]
        R.check(('len(positions) == 1', True) in atoms, fb.q, 'fallback-one', 'a position is returned only for exactly one match',
                f'`return {text(r.ast.value)}` is guarded by {atoms}', where=fb.where(r))
    R.check(bool(fb.raises('NotImplementedError')), fb.q, 'fallback-many', 'multiple matches are refused', 'multiple matches are not refused', where=fb.fi.where)
    # comparison is equality with the label over the whole span
    src = text(fb.fi.node)
    R.check('np.asarray(span, dtype=object) == period' in src, fb.q, 'fallback-compare', 'the fallback matches by equality with the label',
            'the fallback does not compare `np.asarray(span, dtype=object) == period`', where=fb.fi.where)


def run(R) -> None:
    R.explanation = (
        'C10 (thin): _resolve_period_slice defaults, separate location of start/stop, +1 exactly when the located stop is not a slice; '
        '__getitem__/__setitem__ resolve tuple keys through the same helpers and apply the same [start:stop:step] / [location] subscripts '
        'to the same backing array; every handler in _locate_period_in_span re-raises KeyError(period) from e, no default position; '
        'fallback: zero -> KeyError, one -> position, many -> refused. Does not decide what list.index / Index.get_loc select.'
    )
    R.rule('C10.R1', lambda: r1_inclusive_stop(R))
    R.rule('C10.R2', lambda: r2_get_set_symmetry(R))
    R.rule('C10.R3', lambda: r3_keyerror_discipline(R))
