"""C10 - label-based access addresses exactly the labelled periods.

Thin: the core is library indexing semantics.  Decided: R1 inclusive stop,
R2 get/set symmetry, R3 KeyError discipline.

The rules identify locals by *role* (what they are computed from), never by
name: renaming locals, turning `if x is None: x = d` into a conditional
expression, inverting an if/else or re-ordering independent statements does not
change any verdict.  A shape that cannot be assigned roles is INCONCLUSIVE.
"""

from __future__ import annotations

import ast
from typing import Dict, List, Optional, Set, Tuple

from fsa.cfg import raised_class
from fsa.match import Unknown, dict_slot, is_call, is_const, is_self_call, is_underscore_key, method_call
from fsa.source import Unsupported, iter_own_nodes, stmt_key, text
from rules.common import Fn

VC = 'fsic.core.containers.VectorContainer'
SPAN = ("self.__dict__['span']", 'self.span')


def _names_from(f: Fn, pred) -> Set[str]:
    """Locals having a definition whose value satisfies `pred`."""
    out = set()
    for nm in f.lf.locals:
        for d in f.vdefs(nm):
            if d.op is None and pred(d.value):
                out.add(nm)
    return out


def r1_inclusive_stop(R) -> None:
    q = f'{VC}._resolve_period_slice'
    f = Fn(R, q)
    param = f.fi.params()[1] if len(f.fi.params()) > 1 else 'index'
    role: Dict[str, str] = {}
    # the three parts of the slice, with the default of an open end, read on the gated value of the local that carries each
    # (an `if x is None: x = d`, a conditional expression and a helper all read the same)
    from fsa.gated import canon
    se = f.symexec()
    rets_ = f.returns()
    if not rets_:
        raise Unknown(f'{q}: no return')
    want = {'start': [f'{s}[0]' for s in SPAN], 'stop': [f'{s}[-1]' for s in SPAN], 'step': ['1']}
    for part in ('start', 'stop', 'step'):
        src = f'{param}.{part}'
        found = None
        for nm in sorted(f.lf.locals):
            if nm in f.fi.params():
                continue
            try:
                v = canon(se.value(rets_[0].ast, ast.Name(id=nm, ctx=ast.Load())))
            except Exception:
                continue
            if isinstance(v, ast.IfExp) and text(v.test) == f'{src} is None' and text(v.orelse) == src:
                found = (nm, 'none', v.body)
            elif isinstance(v, ast.BoolOp) and isinstance(v.op, ast.Or) and text(v.values[0]) == src:
                found = (nm, 'falsy', v.values[-1])
            elif isinstance(v, ast.IfExp) and text(v.test) == src and text(v.body) == src:
                found = (nm, 'falsy', v.orelse)
            elif text(v) == src and found is None:
                found = (nm, 'missing', None)
        if found is None:
            raise Unknown(f'{q}: cannot identify the local holding `{src}`')
        nm, kind, dv = found
        role[part] = nm
        if kind == 'falsy':
            R.violation(q, f'default-falsy:{part}', f'the default for an open slice {part} is applied to every *falsy* label (0, \'\') instead of only to '
                        f'None (`{nm}` is `{src} or {text(dv)[:30]}`): a slice bounded by such a label is read as open', where=f.fi.where)
            return
        if kind == 'missing':
            R.violation(q, f'default-missing:{part}', f'no default for an open slice {part} (`{nm} is None`)', where=f.fi.where, mismatch=True)
            continue
        got = text(f.expand(rets_[0].id, dv))
        R.check(got in want[part] or text(dv) in want[part], q, f'default:{part}:{got}', f'an open {part} defaults to {want[part][-1]}',
                f'default for an open `{part}` is `{got}`, expected {want[part][-1]}', where=f.fi.where)
    # located positions
    loc: Dict[str, str] = {}
    located = {part: _names_from(f, lambda v, part=part: is_self_call(v, '_locate_period_in_span') and len(v.args) == 1 and text(v.args[0]) == role[part])
               for part in ('start', 'stop')}
    for part in ('start', 'stop'):
        other = 'stop' if part == 'start' else 'start'
        if not located[part] and len(located[other]) >= 2:
            R.violation(q, f'locate:{part}', f'the {part} label `{role[part]}` is never located: both positions are computed from the {other} label', where=f.fi.where, mismatch=True)
            return
        if not located[part]:
            R.violation(q, f'locate:{part}', f'the {part} label `{role[part]}` is never located in the span', where=f.fi.where, mismatch=True)
            return
    for part in ('start', 'stop'):
        if len(located[part]) != 1:
            raise Unknown(f'{q}: cannot identify the local holding the located {part} position')
        loc[part] = next(iter(located[part]))
    R.ok(q, 'start and stop labels are located separately', detail=loc)
    # slice hits
    for part, attr in (('start', 'start'), ('stop', 'stop')):
        nm = loc[part]
        ds = [d for d in f.vdefs(nm) if d.op is None and d.knows(f'isinstance({nm}, slice)')]
        if not ds:
            R.violation(q, f'slice-hit-missing:{part}', f'a slice returned for the {part} label is not reduced to a position', where=f.fi.where, mismatch=True)
            continue
        R.check(text(ds[0].value) == f'{nm}.{attr}', q, f'slice-hit:{part}:{text(ds[0].value)}', f'a slice hit for the {part} label contributes its .{attr}',
                f'a slice hit for the {part} label contributes `{text(ds[0].value)}`, expected `.{attr}`', where=f.where(ds[0].node))
    # the inclusive +1
    sn = loc['stop']
    incs = [d for d in f.vdefs(sn) if (d.op is not None) or (d.op is None and isinstance(d.value, ast.BinOp) and sn in text(d.value))]
    if not R.require(q, len(incs), 'stop position + 1 (inclusive stop)', fi=f.fi, pred=lambda x: isinstance(x, ast.AugAssign)):
        return
    R.check(len(incs) == 1, q, 'inclusive-once', 'the stop position is adjusted once', f'{len(incs)} adjustments of the stop position', where=f.fi.where)
    d = incs[0]
    if d.op is not None:
        one = isinstance(d.op, ast.Add) and is_const(d.value, 1)
        shown = f'{sn} {type(d.op).__name__} {text(d.value)}'
    else:
        one = text(d.value) in (f'{sn} + 1', f'1 + {sn}')
        shown = text(d.value)
    R.check(one, q, 'inclusive:' + shown, 'the stop position is made inclusive by +1', f'the stop position is adjusted by `{shown}`, not by + 1', where=f.where(d.node))
    R.check(d.knows(f'isinstance({sn}, slice)', False), q, 'inclusive-guard', 'the +1 applies exactly when the located stop is not a slice',
            f'the +1 on the stop position is not conditional on `not isinstance({sn}, slice)` (a slice hit already carries an exclusive stop)', where=f.where(d.node))
    # result
    rets = f.returns()
    want_ret = [loc['start'], loc['stop'], role['step']]
    main = [r for r in rets if isinstance(r.ast.value, ast.Tuple) and [text(e) for e in r.ast.value.elts] == want_ret]
    other = [r for r in rets if r not in main]
    for r in other:
        # a return that hands back what the span object's own slicing method worked out (a library shortcut under its own
        # conditions): whether those conditions make it agree with the positions located here is not decided
        names_ = {x.id for x in ast.walk(r.ast.value) if isinstance(x, ast.Name)} if r.ast.value is not None else set()
        from_lib = any(isinstance(dv, ast.Call) and isinstance(dv.func, ast.Attribute) and not is_self_call(dv)
                       for nm_ in names_ for (_s, dv) in f.lf.values_reaching(r.id, nm_) if dv is not None)
        if from_lib and main:
            raise Unknown(f'{q}: `return {text(r.ast.value)[:60]}` comes from a library call (a shortcut beside the located positions): not decided here')
    ok = len(main) == 1 and not other
    R.check(ok, q, 'return:' + (text(rets[0].ast.value) if rets else '?'), 'returns (start position, stop position, step)',
            f'returns `{text((other or rets)[0].ast.value) if rets else "?"}`, expected ({loc["start"]}, {loc["stop"]}, {role["step"]})', where=f.fi.where)


def _tuple_path(f: Fn) -> Dict[str, object]:
    """Role-based facts about the (name, index) path of __getitem__/__setitem__."""
    out: Dict[str, object] = {}
    key = f.fi.params()[1]
    unp = [n for n in f.cfg.nodes if n.kind == 'stmt' and isinstance(n.ast, ast.Assign) and isinstance(n.ast.targets[0], (ast.Tuple, ast.List))
           and text(n.ast.value) == key and len(n.ast.targets[0].elts) == 2]
    if len(unp) != 1:
        raise Unknown(f'{f.q}: the key is not unpacked as `name, index = {key}`')
    name, index = [text(e) for e in unp[0].ast.targets[0].elts]
    out['name'], out['index'] = name, index
    sl = [n for n in f.cfg.nodes if n.kind == 'stmt' and isinstance(n.ast, ast.Assign) and is_self_call(n.ast.value, '_resolve_period_slice')]
    lc = [n for n in f.cfg.nodes if n.kind == 'stmt' and isinstance(n.ast, ast.Assign) and is_self_call(n.ast.value, '_locate_period_in_span')]
    if len(sl) != 1 or len(lc) != 1:
        raise Unknown(f'{f.q}: expected one call of _resolve_period_slice and one of _locate_period_in_span on the tuple path')
    out['slice_arg'] = text(sl[0].ast.value.args[0])
    out['loc_arg'] = text(lc[0].ast.value.args[0])
    tg = sl[0].ast.targets[0]
    out['slice_names'] = [text(e) for e in tg.elts] if isinstance(tg, (ast.Tuple, ast.List)) else [text(tg)]
    out['loc_name'] = text(lc[0].ast.targets[0])
    out['slice_guard'] = f.holds(sl[0].id, f'isinstance({index}, slice)')
    out['loc_guard'] = f.holds(lc[0].id, f'isinstance({index}, slice)', False) or not f.cfg.reaches(sl[0].id, lc[0].id)
    return out


def _access_leaves(f: Fn, se, stmt_node, sub: ast.Subscript):
    """[(facts as (text, truth), base text, selector expr)] for one subscript access, on gated values: the guards of the
    statement and every conditional inside base, selector or guards contribute facts (the whole is read as one decision
    tree, so a conditional buried in an argument - a key re-packed by a helper - splits the access like an `if` would);
    leaves whose facts contradict each other or a guard are dropped."""
    from fsa.gated import canon, consistent, leaves, lift_ifs
    from fsa.match import nnf_atoms
    st = stmt_node.ast
    base = canon(se.value(st, sub.value))
    if isinstance(sub.slice, ast.Slice):
        parts = [canon(se.value(st, x)) if x is not None else ast.Constant(value=None) for x in (sub.slice.lower, sub.slice.upper, sub.slice.step)]
        sel = ast.Call(func=ast.Name(id='<slice>', ctx=ast.Load()), args=parts, keywords=[])
    else:
        sel = canon(se.value(st, sub.slice))
    guards = [(canon(se.value(st, a_)), tr) for (a_, tr, _tn) in f.guard_atoms(stmt_node.id)]
    whole = ast.Tuple(elts=[base, sel] + [g_ for (g_, _tr) in guards], ctx=ast.Load())
    out = []
    for (fc, v) in leaves(canon(lift_ifs(whole))):
        facts = [(text(a_), tr) for (a_, tr) in fc]
        dead = False
        for (g_, (_g0, tr)) in zip(v.elts[2:], guards):
            if isinstance(g_, ast.Constant) and isinstance(g_.value, bool):
                dead = dead or (g_.value != tr)
                continue
            facts += [(text(a2), t2) for (a2, t2) in nnf_atoms(g_, tr)]
        if dead or not consistent(facts):
            continue
        s_ = v.elts[1]
        if is_call(s_, '<slice>'):
            s_ = ast.Slice(*[None if is_const(x, None) else x for x in s_.args])
        out.append((facts, text(v.elts[0]), s_))
    return out


def _classify_selector(key: str, facts, sel) -> str:
    """'slice' / 'loc' / a description of what is wrong."""
    idx = f'{key}[1]'
    res = f'self._resolve_period_slice({idx})'
    is_sl = (f'isinstance({idx}, slice)', True) in facts
    not_sl = (f'isinstance({idx}, slice)', False) in facts
    parts = None
    if isinstance(sel, ast.Slice):
        parts = [text(x) if x is not None else None for x in (sel.lower, sel.upper, sel.step)]
    elif isinstance(sel, ast.Call) and isinstance(sel.func, ast.Name) and sel.func.id == 'slice' and len(sel.args) == 3 and not sel.keywords:
        parts = [text(x) for x in sel.args]
    if is_call(sel, 'slice') and len(sel.args) == 1 and isinstance(sel.args[0], ast.Starred) and text(sel.args[0].value) == res and not sel.keywords:
        # slice(*(start, stop, step)): the three resolved parts, in order
        return 'slice' if is_sl else 'slice selector used without `isinstance(index, slice)`'
    if parts is not None:
        if parts == [f'{res}[0]', f'{res}[1]', f'{res}[2]']:
            return 'slice' if is_sl else 'slice selector used without `isinstance(index, slice)`'
        return f'slice `{":".join(p_ or "" for p_ in parts)}` is not (start, stop, step) of _resolve_period_slice(index)'
    if text(sel) == f'self._locate_period_in_span({idx})':
        return 'loc' if not_sl else 'label lookup used although the index may be a slice'
    if text(sel) == res:
        return 'the whole (start, stop, step) tuple is used as the subscript'
    if is_call(sel, '__reraise__') or is_call(sel, '__raise__'):
        return 'raises'
    raised = (f"__raised__(self._locate_period_in_span({idx}), 'KeyError')", True) in facts
    if isinstance(sel, ast.ListComp) and len(sel.generators) == 1 and not sel.generators[0].ifs and text(sel.generators[0].iter) == idx \
            and text(sel.elt) == f'self._locate_period_in_span({text(sel.generators[0].target)})' and raised:
        # the index is not itself a label (the look-up raised KeyError) and is then read as a collection of labels: only for
        # types that can never be a label (unhashable ones) - for a hashable one, an absent label must stay a KeyError
        import collections.abc as cabc
        types = {'Sequence': cabc.Sequence, 'collections.abc.Sequence': cabc.Sequence, 'Iterable': cabc.Iterable, 'collections.abc.Iterable': cabc.Iterable,
                 'Hashable': cabc.Hashable, 'list': list, 'tuple': tuple, 'str': str, 'set': set, 'frozenset': frozenset, 'bytes': bytes, 'Collection': cabc.Collection}
        reps = {'tuple': ('a', 'b'), 'str': 'ab', 'frozenset': frozenset(('a', 'b')), 'bytes': b'ab', 'list': ['a', 'b']}
        admitted = set(reps)
        for (a_, tr_) in facts:
            if a_.startswith('__raised__(') or a_ == f'isinstance({idx}, slice)':
                continue
            node = ast.parse(a_, mode='eval').body
            if is_call(node, 'isinstance') and len(node.args) == 2 and text(node.args[0]) == idx:
                ts = node.args[1].elts if isinstance(node.args[1], ast.Tuple) else [node.args[1]]
                if all(text(t_) in types for t_ in ts):
                    tt = tuple(types[text(t_)] for t_ in ts)
                    admitted = {k for k in admitted if isinstance(reps[k], tt) == tr_}
                    continue
            if idx not in a_:
                continue
            raise Unknown(f'fallback to a collection of labels under `{a_}`: which index types it admits is not decided')
        hashable = sorted(k for k in admitted if k != 'list')
        if hashable:
            return (f'when `{idx}` is not a label, it is read as a collection of labels for the hashable type(s) {hashable}: an absent label of such a type (a tuple label of a '
                    f'MultiIndex span, a string) no longer raises KeyError - its elements that are labels are addressed instead, i.e. other periods')
        return 'labels'
    if any(isinstance(x, ast.Call) and isinstance(x.func, ast.Attribute) and isinstance(x.func.value, ast.Name) and x.func.value.id == 'self'
           and x.func.attr not in ('_locate_period_in_span', '_resolve_period_slice', '__getattr__', '__getitem__') for x in ast.walk(sel)):
        raise Unknown(f'subscript `{text(sel)[:60]}` goes through a helper that was not read (several exits, try/except): which positions it selects is not decided')
    return f'subscript `{text(sel)[:60]}` is neither the resolved slice nor the located label'


def r2_get_set_symmetry(R) -> None:
    from fsa.gated import SymExec
    g = Fn(R, f'{VC}.__getitem__')
    s = Fn(R, f'{VC}.__setitem__')
    keyg, keys_ = g.fi.params()[1], s.fi.params()[1]
    val = s.fi.params()[2]
    # small forwarding methods are read through; the two that the rule is stated in terms of stay calls
    anchors = ('self._locate_period_in_span', 'self._resolve_period_slice', 'self.__getattr__', 'self.__getitem__', 'self.__setitem__')
    from fsa import summ as _summ
    _summ.TRY_FALLBACK[0] = True
    try:
        seg, ses = g.symexec(methods=True, exclude=anchors), s.symexec(methods=True, exclude=anchors)
    finally:
        _summ.TRY_FALLBACK[0] = False
    # get: every `return <series>[...]`
    seen = {'slice': False, 'loc': False}
    series_g = {f'self.__getattr__({keyg}[0])', f"self.__dict__['_' + {keyg}[0]]"}
    for r in g.returns():
        v = r.ast.value
        if not isinstance(v, ast.Subscript):
            continue
        for (facts, base, sel) in _access_leaves(g, seg, r, v):
            if base not in series_g:
                continue
            kind = _classify_selector(keyg, facts, sel)
            if kind in seen:
                seen[kind] = True
            elif kind in ('raises', 'labels'):
                pass
            else:
                R.violation(g.q, f'get-subscript:{text(sel)[:50]}', f'`return {text(v)[:60]}`: {kind}', where=g.where(r), mismatch=True)
    R.check(seen['slice'], g.q, 'get-slice', 'a label slice returns series[start:stop:step]', 'no `return series[start:stop:step]` for label slices', where=g.fi.where)
    R.check(seen['loc'], g.q, 'get-label', 'a single label returns series[position]', 'no `return series[position]` for single labels', where=g.fi.where)
    # set: every store through the series named by the key
    seen = {'slice': False, 'loc': False}
    series_s = {f"self.__dict__['_' + {keys_}[0]]"}
    for n in s.cfg.nodes:
        a = n.ast
        if n.kind == 'stmt' and isinstance(a, ast.Assign) and len(a.targets) == 1 and isinstance(a.targets[0], ast.Subscript):
            tg_ = a.targets[0]
            for (facts, base, sel) in _access_leaves(s, ses, n, tg_):
                ds = dict_slot(ast.parse(base, mode='eval').body) if base else None
                if ds is None or is_underscore_key(ds[1]) is None:
                    continue
                okb = base in series_s and text(a.value) == val
                R.check(okb, s.q, 'set-base:' + text(a)[:60], 'the value is written into the series named by the key',
                        f'`{text(a)[:70]}` does not store `{val}` into the series named by the key (it stores into `{base[:50]}`)', where=s.where(n))
                kind = _classify_selector(keys_, facts, sel)
                if kind in seen:
                    seen[kind] = True
                elif kind in ('raises', 'labels'):
                    pass
                else:
                    R.violation(s.q, f'set-subscript:{text(sel)[:50]}', f'`{text(a)[:70]}`: {kind}' + (' (e.g. a slice without the step writes every period in between)' if kind.startswith('slice') else ''),
                                where=s.where(n), mismatch=True)
    R.check(seen['slice'], s.q, 'set-slice', 'a label slice writes series[start:stop:step]', 'no store through series[start:stop:step] for label slices', where=s.fi.where)
    R.check(seen['loc'], s.q, 'set-label', 'a single label writes series[position]', 'no store through series[position] for single labels', where=s.fi.where)
    # non-tuple path: whole array (read on gated values: the key may have been unpacked or re-packed on the way)
    def whole(f_, se_, key_, want_attr, want_args) -> bool:
        from fsa.gated import canon, consistent, leaves, lift_ifs
        from fsa.match import nnf_atoms
        for n in f_.cfg.nodes:
            if n.ast is None or n.kind != 'stmt':
                continue
            for x in ast.walk(n.ast):
                if is_self_call(x, want_attr) and len(x.args) == len(want_args):
                    guards = [(canon(se_.value(n.ast, a_)), tr) for (a_, tr, _tn) in f_.guard_atoms(n.id)]
                    tup = ast.Tuple(elts=[canon(se_.value(n.ast, a_)) for a_ in x.args] + [g_ for (g_, _t) in guards], ctx=ast.Load())
                    for (fc, v) in leaves(canon(lift_ifs(tup))):
                        facts = [(text(a_), tr) for (a_, tr) in fc]
                        dead = False
                        for (g_, (_g0, tr)) in zip(v.elts[len(x.args):], guards):
                            if isinstance(g_, ast.Constant) and isinstance(g_.value, bool):
                                dead = dead or g_.value != tr
                            else:
                                facts += [(text(a2), t2) for (a2, t2) in nnf_atoms(g_, tr)]
                        if dead or not consistent(facts):
                            continue
                        if [text(e_) for e_ in v.elts[:len(x.args)]] == want_args and ((f'isinstance({key_}, str)', True) in facts or (f'isinstance({key_}, tuple)', False) in facts):
                            return True
        return False

    R.check(whole(s, ses, keys_, '__setattr__', [keys_, val]), s.q, 'set-whole',
            'a plain name key replaces the whole series through __setattr__', '__setitem__(name, value) does not delegate to __setattr__(key, value)', where=s.fi.where)
    R.check(whole(g, seg, keyg, '__getattr__', [keyg]), g.q, 'get-whole',
            'a plain name key returns the whole series', '__getitem__(name) does not return __getattr__(key)', where=g.fi.where)
    for f in (g, s):
        ks = f.raises('KeyError')
        R.require(f.q, len(ks), 'KeyError for an unknown variable name', fi=f.fi, pred=lambda x: isinstance(x, ast.Raise))


def r3_keyerror_discipline(R) -> None:
    q = f'{VC}._locate_period_in_span'
    f = Fn(R, q)
    period = f.fi.params()[1]
    hs = [n for n in f.cfg.nodes if n.kind == 'except']
    R.expect(q, len(hs), 1, 'exception handlers around the search methods')
    for r in f.returns():
        R.check(bool(r.trys), q, 'search-protected:' + text(r.ast.value)[:40], 'every search method is called inside a try whose handler turns failures into KeyError',
                f'`return {text(r.ast.value)[:50]}` is outside any try: a failure of the search method escapes as whatever it raises, not KeyError', where=f.where(r))
    for h in hs:
        broad = h.ast.type is None or text(h.ast.type).split('.')[-1] in ('Exception', 'BaseException')
        R.check(broad, q, f'handler-breadth:{text(h.ast.type) if h.ast.type else "bare"}', 'every failure of a search method is translated (except Exception)',
                f'handler `{h.label()}` catches only some exception classes: other failures of the search method (e.g. NotImplementedError for several '
                f'matches) would escape instead of KeyError', where=f.where(h))
        body = h.ast.body
        last = body[-1] if body else None
        ok = isinstance(last, ast.Raise) and text(last.exc) == f'KeyError({period})' and isinstance(last.cause, ast.Name) and last.cause.id == h.ast.name \
            and not any(isinstance(x, ast.Return) for s_ in body for x in ast.walk(s_))
        R.check(ok, q, f'handler:{text(h.ast.type) if h.ast.type else "bare"}:{stmt_key(last)[:50] if last is not None else "empty"}',
                'a failed lookup surfaces as KeyError(period) chained to the cause',
                f'handler `{h.label()}` ends in `{text(last)[:60] if last is not None else "nothing"}` instead of `raise KeyError({period}) from {h.ast.name}`: a missing label could alias another period',
                where=f.where(h))
    se3 = None
    for r in f.returns():
        v = r.ast.value
        ok = isinstance(v, ast.Call) and len(v.args) >= 1 and text(v.args[0]) == period
        if not ok and isinstance(v, ast.Call):
            # the callable and its arguments chosen first, applied afterwards (`fn, args = m, (period, span)` ... `return fn(*args)`):
            # read every value the call can take
            from fsa.gated import canon, leaves, lift_ifs
            se3 = se3 or f.symexec()
            try:
                lv = leaves(canon(lift_ifs(canon(se3.value(r.ast, v)))))
            except (Unsupported, Unknown):
                lv = []
            def first_arg(c_):
                if not isinstance(c_, ast.Call) or not c_.args:
                    return None
                a0 = c_.args[0]
                if isinstance(a0, ast.Starred) and isinstance(a0.value, (ast.Tuple, ast.List)) and a0.value.elts:
                    a0 = a0.value.elts[0]
                return text(a0)
            if lv and all(first_arg(c_) == period for (_f, c_) in lv):
                ok = True
            elif lv and not any(first_arg(c_) is not None and first_arg(c_) != period and not first_arg(c_).startswith('*') for (_f, c_) in lv):
                raise Unknown(f'{q}: `return {text(v)[:50]}`: what the search method is applied to was not read')
        R.check(ok, q, 'return:' + text(v)[:50], 'positions come only from a search method applied to the label',
                f'`return {text(v)[:50]}` returns a default position', where=f.where(r))
    # fallback: role-based (the array of matching positions = <...>.nonzero()[0] / np.flatnonzero(...))
    fb = Fn(R, f'{VC}._locate_period_in_span_fallback')
    per, span = fb.fi.params()[0], fb.fi.params()[1]
    src = text(fb.fi.node)
    # the comparison of the span (as objects) with the label: element by element, the label taken as ONE value.  A label that
    # is itself a sequence (tuples are hashable, and legal labels) compared as `array == label` is broadcast against the
    # span instead: (6,) "equals" the period 6, a tuple as long as the span matches wherever one element does
    cmp_nodes = [(n, x) for n in fb.cfg.nodes if n.ast is not None and n.kind == 'stmt' for x in ast.walk(n.ast)
                 if isinstance(x, ast.Compare) and len(x.ops) == 1 and isinstance(x.ops[0], ast.Eq) and f'np.asarray({span}, dtype=object)' in (text(x.left), text(x.comparators[0]))]
    elementwise = [x for x in ast.walk(fb.fi.node) if isinstance(x, (ast.ListComp, ast.GeneratorExp)) and len(x.generators) == 1 and text(x.generators[0].iter) == span
                   and isinstance(x.elt, ast.Compare) and len(x.elt.ops) == 1 and isinstance(x.elt.ops[0], ast.Eq)
                   and sorted([text(x.elt.left), text(x.elt.comparators[0])]) == sorted([text(x.generators[0].target), per])]
    if not cmp_nodes and not elementwise:
        R.check(False, fb.q, 'fallback-compare', 'the fallback matches by equality with the label (object comparison)',
                f'the fallback does not compare `np.asarray({span}, dtype=object)` with the label (a cast of the label to the span dtype would alias absent labels)', where=fb.fi.where)
    for (n, x) in cmp_nodes:
        other = x.comparators[0] if text(x.left) == f'np.asarray({span}, dtype=object)' else x.left
        if text(other) == per:
            R.violation(fb.q, 'fallback-compare-broadcast',
                        f'`{text(x)}`: a label that is a tuple is broadcast against the span instead of being compared as one value - on a NumPy-array span the absent label (6,) '
                        f'resolves to the period labelled 6, and a tuple as long as the span to whichever period one of its elements names: an absent label aliases another period',
                        where=fb.where(n))
            continue
        boxed = False
        if isinstance(other, ast.Name) and other.id in fb.lf.locals:
            vals = fb.lf.values_reaching(n.id, other.id)
            zero_d = vals and all(dv is not None and is_call(dv, 'np.empty', 'numpy.empty') and dv.args and text(dv.args[0]) == '()' and 'object' in text(dv) for (_s, dv) in vals)
            filled = [m for m in fb.cfg.nodes if m.kind == 'stmt' and isinstance(m.ast, ast.Assign) and isinstance(m.ast.targets[0], ast.Subscript)
                      and text(m.ast.targets[0]) == f'{other.id}[()]' and text(m.ast.value) == per and m.id in fb.dom[n.id]]
            boxed = bool(zero_d and filled)
        if boxed:
            R.check(True, fb.q, 'fallback-compare', 'the fallback compares each element of the span with the label held as one object (no broadcasting of tuple labels)', '', where=fb.where(n))
        else:
            raise Unknown(f'{fb.q}: `{text(x)}`: whether the label is compared as one value was not read')
    for x in elementwise:
        R.check(True, fb.q, 'fallback-compare', 'the fallback compares the label with each element of the span in turn', '', where=fb.fi.where)

    def count_fact(nid: int, n: int) -> bool:
        """Is `number of matches == n` known at node nid?  The guards on `len(<matches>)` (directly or through a local), in
        any spelling (`== 1`, `> 1` false and `== 0` false, truthiness), are intersected as an interval of the naturals."""
        lo, hi = 0, None
        excluded = set()
        seen_any = False
        for (a, truth, _t) in fb.guard_atoms(nid):
            ea = fb.expand(nid, a, depth=3)
            if is_call(ea, 'len') or (isinstance(ea, ast.Name) and ea.id in fb.lf.locals):
                # truthiness of the count / of the collection itself
                if is_call(ea, 'len'):
                    seen_any = True
                    if truth:
                        lo = max(lo, 1)
                    else:
                        hi = 0
                continue
            if not (isinstance(ea, ast.Compare) and len(ea.ops) == 1):
                continue
            l, r_ = ea.left, ea.comparators[0]
            op = type(ea.ops[0])
            if is_call(r_, 'len') and isinstance(l, ast.Constant):
                l, r_ = r_, l
                op = {ast.Lt: ast.Gt, ast.Gt: ast.Lt, ast.LtE: ast.GtE, ast.GtE: ast.LtE}.get(op, op)
            if not (is_call(l, 'len') and isinstance(r_, ast.Constant) and type(r_.value) is int):
                continue
            seen_any = True
            c = r_.value
            if not truth:
                op = {ast.Eq: ast.NotEq, ast.NotEq: ast.Eq, ast.Lt: ast.GtE, ast.GtE: ast.Lt, ast.Gt: ast.LtE, ast.LtE: ast.Gt}.get(op)
            if op is ast.Eq:
                lo, hi = max(lo, c), c if hi is None else min(hi, c)
            elif op is ast.NotEq:
                excluded.add(c)
            elif op is ast.Lt:
                hi = c - 1 if hi is None else min(hi, c - 1)
            elif op is ast.LtE:
                hi = c if hi is None else min(hi, c)
            elif op is ast.Gt:
                lo = max(lo, c + 1)
            elif op is ast.GtE:
                lo = max(lo, c)
        while lo in excluded:
            lo += 1
        while hi is not None and hi in excluded:
            hi -= 1
        return seen_any and hi is not None and lo == hi == n

    ks = fb.raises('KeyError')
    if R.require(fb.q, len(ks), 'raise KeyError when nothing matches', fi=fb.fi, pred=lambda x: isinstance(x, ast.Raise)):
        R.check(count_fact(ks[0].id, 0), fb.q, 'fallback-zero', 'zero matches raise KeyError', 'the KeyError of the fallback is not raised exactly for zero matches',
                where=fb.where(ks[0]))
    for r in fb.returns():
        R.check(count_fact(r.id, 1), fb.q, 'fallback-one:' + text(r.ast.value)[:30], 'a position is returned only for exactly one match',
                f'`return {text(r.ast.value)}` is not confined to the case of exactly one match (several matches would silently resolve to one of them)', where=fb.where(r))
    R.check(bool(fb.raises('NotImplementedError')), fb.q, 'fallback-many', 'multiple matches are refused', 'multiple matches are not refused', where=fb.fi.where)


def run(R) -> None:
    R.explanation = (
        'C10 (thin): _resolve_period_slice: locals are identified by role (what they are computed from); defaults for open ends only '
        'under `is None`, start/stop located separately, slice hits reduced to .start/.stop, +1 exactly when the located stop is not a '
        'slice; __getitem__/__setitem__ pass the index part to the same helpers and apply [start:stop:step] / [position] to the series of '
        'the key; every handler in _locate_period_in_span is `except Exception` and re-raises KeyError(period) from e, no default '
        'position; fallback: equality on object arrays, 0 matches KeyError, 1 match position, several refused. Does not decide what '
        'list.index / Index.get_loc select.'
    )
    R.rule('C10.R1', lambda: r1_inclusive_stop(R))
    R.rule('C10.R2', lambda: r2_get_set_symmetry(R))
    R.rule('C10.R3', lambda: r3_keyerror_discipline(R))
    # a class that wraps item access (the alias layer) hands the span index on untouched: only the name part of a
    # (name, index) key is its business (C18.R1 owns the reader)
    from rules import c18
    R.rule('C10.R4', lambda: c18.r1_dunders(R))
