"""C12 - reindex preserves overlapping periods and fills the rest, on a fresh object.

R1 fresh result / untouched original, R2 fill defaults, R3 precedence,
R4 strict, R5 position map direction.
"""

from __future__ import annotations

import ast
from typing import Dict, List, Optional

from fsa.consts import fold_enum
from fsa.effects import effect_nodes, local_aliases_of, direct_writes
from fsa.match import dict_slot, dotted, enum_value_ref, is_call, is_const, is_self_call, is_super_call, is_underscore_key, kwarg, method_call, has_star_kwargs
from fsa.source import Unsupported, iter_own_nodes, stmt_key, text
from rules.common import Fn

VR = 'fsic.core.containers.VectorContainer.reindex'
MR = 'fsic.core.models.BaseModel.reindex'
PR = 'fsic.extensions.model.PandasIndexFeaturesMixin.reindex'


def _result_name(f) -> str:
    """The local that holds the object reindex returns."""
    rets = f.returns()
    if len(rets) == 1 and isinstance(rets[0].ast.value, ast.Name):
        return rets[0].ast.value.id
    raise Unsupported(f'{f.q}: expected one `return <name>`')


def r1_fresh(R) -> None:
    f = Fn(R, VR)
    res = _result_name(f)
    ds = f.assigns_to(res)
    ok = len(ds) == 1 and is_self_call(ds[0].ast.value, 'copy') and not ds[0].ast.value.args
    R.check(ok, VR, 'fresh:' + (text(ds[0].ast.value) if ds else '?'), 'the result starts as self.copy() (deep by C11.R2)',
            f'`{res}` is `{text(ds[0].ast.value) if ds else "?"}`, not self.copy()', where=f.fi.where)
    rets = f.returns()
    R.check(len(rets) == 1 and text(rets[0].ast.value) == res, VR, 'returns-new', 'the new object is returned', 'reindex does not return `reindexed`', where=f.fi.where)
    for q in (VR, MR, PR):
        fi = R.repo.func(q)
        ws = direct_writes(fi.node, {'self'})
        for (n, why) in ws:
            R.violation(q, 'writes-self:' + text(n)[:60], f'reindex writes the original object: {why}', where=f'{fi.module.relpath}:{getattr(n, "lineno", 0)}')
        # calls of writing methods on self
        from rules.solver_common import effects_of
        eff = effects_of(R.repo)
        bad = [x for x in ast.walk(fi.node) if is_self_call(x) and eff.method_writes(x.func.attr) and x.func.attr not in ('copy', 'reindex')]
        for x in bad:
            R.violation(q, 'calls-writer:' + text(x.func), f'reindex calls `{text(x.func)}()` on the original object, which may modify it', where=f'{fi.module.relpath}:{x.lineno}')
        if not ws and not bad:
            R.ok(q, 'no write whose receiver is the original object')
    # BaseModel / pandas variants delegate to the base reindex
    for q in (MR, PR):
        fi = R.repo.func(q)
        calls = [x for x in ast.walk(fi.node) if is_super_call(x, 'reindex')]
        R.require(q, len(calls), 'super().reindex(...)', fi=fi, pred=lambda x: is_super_call(x, 'reindex'))


def _stmt_of(fnode, se, node):
    best = None
    for s_ in ast.walk(fnode):
        if isinstance(s_, ast.stmt) and id(s_) in se.before and any(x is node for x in ast.walk(s_)):
            if best is None or any(x is s_ for x in ast.walk(best)):
                best = s_
    if best is None:
        raise Unsupported('statement not visited by the symbolic evaluator')
    return best


def r2_fill_defaults(R) -> None:
    from fsa.gated import SymExec, canon
    f = Fn(R, VR)
    # the fill value handed to np.full for each rebuilt series, as one gated expression
    stores = [n for n in f.cfg.nodes if n.kind == 'stmt' and isinstance(n.ast, ast.Assign) and dict_slot(n.ast.targets[0]) is not None
              and is_underscore_key(dict_slot(n.ast.targets[0])[1]) is not None]
    want = {'bool': ('False', 'bool'), 'np.integer': ('0', 'int'), 'str': ("''", 'str')}
    if stores and is_call(stores[0].ast.value, 'np.full', 'numpy.full') and len(stores[0].ast.value.args) >= 2:
        se = f.symexec()
        st = stores[0].ast
        nm_key = text(is_underscore_key(dict_slot(st.targets[0])[1]))
        fill = canon(se.value(st, st.value.args[1]))
        dts = {f'self[{nm_key}].dtype', f"self.__dict__['_' + {nm_key}].dtype", f'self.__getitem__({nm_key}).dtype'}
        rows = {}
        cur = fill
        while isinstance(cur, ast.IfExp) and is_call(cur.test, 'np.issubdtype', 'numpy.issubdtype') and len(cur.test.args) == 2 and text(cur.test.args[0]) in dts:
            rows[text(cur.test.args[1])] = cur.body
            cur = cur.orelse
        base = cur
        if any(is_call(x, 'np.issubdtype', 'numpy.issubdtype') for x in ast.walk(base)):
            raise Unsupported(f'{VR}: dtype dispatch of the fill value not modelled: `{text(base)[:80]}`')
        for kind, (dflt, fn) in want.items():
            row = rows.get(kind)
            if row is None:
                R.violation(VR, f'dtype-row-missing:{kind}', f'no fill rule for dtype family `{kind}` (such series cannot hold NaN)', where=f.where(stores[0]))
                continue
            none_v = other_v = None
            if isinstance(row, ast.IfExp) and text(row.test) == f'{text(base)} is None':
                none_v, other_v = text(row.body), text(row.orelse)
            elif isinstance(row, ast.IfExp) and isinstance(row.test, ast.Compare) and isinstance(row.test.ops[0], ast.Is) and text(row.test.comparators[0]) == 'None':
                none_v, other_v = text(row.body), text(row.orelse) + f'  [tested on `{text(row.test.left)[:40]}`]'
            else:
                none_v = other_v = text(row)
            R.check(none_v == dflt, VR, f'fill-default:{kind}:{none_v[:40]}', f'{kind} series are filled with {dflt} when no fill value is given',
                    f'default fill for {kind} series is `{none_v[:60]}`, expected `{dflt}`', where=f.where(stores[0]))
            R.check(other_v == f'{fn}({text(base)})', VR, f'fill-coerce:{kind}:{other_v[:40]}', f'a given fill value is coerced with {fn}(value)',
                    f'given fill for {kind} series becomes `{other_v[:80]}`, expected `{fn}(value)`', where=f.where(stores[0]))
        # precedence of what is coerced: per-variable fill, else fill_value
        okp = method_call(base, 'get') and text(base.func.value) == 'fill_values' and [text(a_) for a_ in base.args] == [nm_key, 'fill_value']
        R.check(okp, VR, 'fill-source:' + text(base)[:50], 'the fill is the per-variable value, else fill_value', f'the fill value starts as `{text(base)[:70]}`', where=f.where(stores[0]))
    # np.full(len(span), value, dtype=old)
    stores = [n for n in f.cfg.nodes if n.kind == 'stmt' and isinstance(n.ast, ast.Assign) and dict_slot(n.ast.targets[0]) is not None
              and is_underscore_key(dict_slot(n.ast.targets[0])[1]) is not None]
    if R.require(VR, len(stores), "reindexed.__dict__['_' + name] = np.full(len(span), value, dtype=old dtype)", fi=f.fi, pred=lambda x: is_call(x, 'np.full')):
        v = stores[0].ast.value
        ok = is_call(v, 'np.full', 'numpy.full') and len(v.args) >= 2 and f.etext(stores[0].id, v.args[0]) == 'len(span)'
        R.check(ok, VR, 'new-array:' + text(v)[:60], 'new series have len(new span) and the chosen fill', f'`{text(v)[:70]}`', where=f.where(stores[0]))
        R.check(dict_slot(stores[0].ast.targets[0])[0] == _result_name(f), VR, 'new-array-owner', 'the new arrays go into the copy', 'the new array is stored in the original', where=f.where(stores[0]))
    # model defaults equal the initial values in ModelInterface.__init__
    g = Fn(R, MR)
    init = R.repo.func('fsic.core.interfaces.ModelInterface.__init__')
    inits = {}
    for x in ast.walk(init.node):
        if is_super_call(x, 'add_variable') and x.args and isinstance(x.args[0], ast.Constant) and len(x.args) >= 2:
            inits[x.args[0].value] = x.args[1]
    for key in ('status', 'iterations'):
        st = [n for n in g.cfg.nodes if n.kind == 'stmt' and isinstance(n.ast, ast.Assign) and isinstance(n.ast.targets[0], ast.Subscript)
              and text(n.ast.targets[0].value) == 'fill_values' and is_const(n.ast.targets[0].slice, key)]
        if not R.require(MR, len(st), f"fill_values['{key}'] default", fi=g.fi, pred=lambda x: isinstance(x, ast.Subscript) and text(x.value) == 'fill_values'):
            continue
        v = st[0].ast.value
        ok = method_call(v, 'get') and text(v.func.value) == 'fill_values' and is_const(v.args[0], key) and len(v.args) == 2
        R.check(ok, MR, f'model-default-keeps-caller:{key}', f"a caller-supplied fill for `{key}` is kept", f"`{text(v)[:60]}` overrides a caller-supplied `{key}` fill", where=g.where(st[0]))
        if ok and key in inits:
            same = ast.dump(v.args[1]) == ast.dump(inits[key])
            R.check(same, MR, f'model-default:{key}:{text(v.args[1])}', f'new periods get the initial `{key}` value ({text(inits[key])})',
                    f"reindex default for `{key}` is `{text(v.args[1])}` but ModelInterface.__init__ initialises it with `{text(inits[key])}`", where=g.where(st[0]))
    # and they are forwarded
    calls = [x for x in ast.walk(g.fi.node) if is_super_call(x, 'reindex')]
    if calls:
        c = calls[0]
        ok = c.args and text(c.args[0]) == 'span' and text(kwarg(c, 'fill_value') or ast.Constant(0)) == 'fill_value' \
            and text(kwarg(c, 'strict') or ast.Constant(0)) == 'strict' and has_star_kwargs(c, 'fill_values')
        R.check(ok, MR, 'model-forwarding', 'span, fill_value, strict and the per-variable fills are forwarded to the base reindex',
                f'`{text(c)[:80]}` does not forward span/fill_value/strict/**fill_values', where=g.fi.where)
        rets = g.returns()
        R.check(len(rets) == 1 and rets[0].ast.value is c, MR, 'model-returns-base', 'the base result is returned', 'BaseModel.reindex does not return the base result', where=g.fi.where)


def r3_precedence(R) -> None:
    f = Fn(R, VR)
    res = _result_name(f)
    gets = f.nodes_with(lambda x: method_call(x, 'get') and text(x.func.value) == 'fill_values')
    if R.require(VR, len(gets), 'value = fill_values.get(name, fill_value)', fi=f.fi, pred=lambda x: method_call(x, 'get')):
        v = [x for x in ast.walk(gets[0].ast) if method_call(x, 'get') and text(x.func.value) == 'fill_values'][0]
        lp = [f.cfg.nodes[i] for i in gets[0].loops]
        tv = text(lp[-1].ast.target) if lp else '?'
        ok = [text(a) for a in v.args] == [tv, 'fill_value']
        R.check(ok, VR, 'precedence:' + text(v), 'per-variable fill, else fill_value, else the dtype default', f'the fill is looked up as `{text(v)}`', where=f.where(gets[0]))
        R.check(bool(lp) and f.etext(lp[-1].id, lp[-1].ast.iter, stop=(res,)) in (f'{res}.index', 'self.index', f"{res}.__dict__['index']", "self.__dict__['index']")
                and isinstance(lp[-1].ast.target, ast.Name), VR, 'every-variable',
                'every variable of the container is rebuilt', 'the rebuild loop does not iterate the container index', where=f.fi.where)


def r4_strict(R) -> None:
    for q, names_attr in ((VR, 'self.index'), (PR, 'self.names')):
        f = Fn(R, q)
        ks = f.raises('KeyError')
        if not R.require(q, len(ks), 'raise KeyError for unknown fill keys under strict', fi=f.fi, pred=lambda x: isinstance(x, ast.Raise)):
            continue
        k = ks[0]
        atoms = [(text(a), truth) for (a, truth, _t) in f.guard_atoms(k.id)]
        R.check(('strict', True) in atoms and ('undefined_variables', True) in atoms, q, 'strict-guard:' + repr(atoms)[:80],
                'unknown fill keys are rejected exactly under strict', f'KeyError guard is {atoms}', where=f.where(k))
        ds = [d for d in f.assigns_to('strict')]
        ok = len(ds) == 1 and text(ds[0].ast.value) == 'self.strict' and any(truth and text(a) == 'strict is None' for (a, truth, _t) in f.guard_atoms(ds[0].id))
        R.check(ok, q, 'strict-default', "strict=None means the object's own setting", 'strict default is not `if strict is None: strict = self.strict`', where=f.fi.where)
        uv = f.assigns_to('undefined_variables')
        ok = len(uv) == 1 and text(uv[0].ast.value) == f'set(fill_values.keys()) - set({names_attr})'
        R.check(ok, q, 'undefined-set', 'unknown = fill keys minus the variables', f'`{text(uv[0].ast.value) if uv else "?"}`', where=f.fi.where)
        # before the copy
        copies = f.nodes_with(lambda x: is_self_call(x, 'copy') or is_super_call(x, 'reindex'))
        for c in copies:
            R.check(not f.cfg.reaches(c.id, k.id), q, 'strict-before-copy', 'the strict check precedes any copying',
                    'the KeyError for unknown fill keys can be raised after the copy was made', where=f.where(c))


def r5_position_map(R) -> None:
    from fsa.match import nnf_atoms
    f = Fn(R, VR)
    res = _result_name(f)
    # consumption first: `for new, old in <map>.items(): reindexed[name][new] = self[name][old]` names the map
    cp = [m for m in f.cfg.nodes if m.kind == 'stmt' and isinstance(m.ast, ast.Assign) and isinstance(m.ast.targets[0], ast.Subscript)
          and isinstance(m.ast.targets[0].value, ast.Subscript) and text(m.ast.targets[0].value.value) == res]
    pmap = 'positions'
    if cp and cp[0].loops:
        it = f.cfg.nodes[cp[0].loops[-1]].ast.iter
        if method_call(it, 'items') and isinstance(it.func.value, ast.Name):
            pmap = it.func.value.id
    # construction: {i: self._locate_period_in_span(period) for i, period in enumerate(span) if period in self.span}
    anchor = f.cfg.nodes[cp[0].loops[-1]] if cp and cp[0].loops else None
    dc = f.as_dictcomp(anchor.id, ast.Name(id=pmap, ctx=ast.Load())) if anchor is not None else None
    if dc is None:
        st = [n for n in f.cfg.nodes if n.kind == 'stmt' and isinstance(n.ast, ast.Assign) and isinstance(n.ast.targets[0], ast.Subscript) and text(n.ast.targets[0].value) == pmap]
        if not R.require(VR, len(st), 'positions[new] = old position', fi=f.fi, pred=lambda x: isinstance(x, ast.Subscript) and text(x.value) == pmap):
            return
        dc = f.loop_store_comp(st[0])
        if dc is None:
            raise Unsupported(f'{VR}: the position map `{pmap}` is not built by one loop or comprehension')
    g = dc.generators[0]
    tg = [x.id for x in ast.walk(g.target) if isinstance(x, ast.Name)]
    ok = len(dc.generators) == 1 and text(g.iter) == 'enumerate(span)' and len(tg) == 2 and text(dc.key) == tg[0] and text(dc.value) == f'self._locate_period_in_span({tg[1]})'
    R.check(ok, VR, 'map-build:' + text(dc)[:80], 'the map sends each new position to the old position of the same label',
            f'`{text(dc)[:100]}` does not build new -> old', where=f.fi.where)
    conds = [(text(a_), tr) for c_ in g.ifs for (a_, tr) in nnf_atoms(c_, True)]
    R.check(len(tg) == 2 and conds == [(f'{tg[1]} in self.span', True)], VR, 'map-only-shared', 'only labels present in the old span are mapped', f'guard is {conds}', where=f.fi.where)
    # consumption: reindexed[name][new] = self[name][old] for new, old in positions.items()
    cp = [m for m in f.cfg.nodes if m.kind == 'stmt' and isinstance(m.ast, ast.Assign) and isinstance(m.ast.targets[0], ast.Subscript)
          and isinstance(m.ast.targets[0].value, ast.Subscript) and text(m.ast.targets[0].value.value) == res]
    if R.require(VR, len(cp), 'reindexed[name][new] = self[name][old]', fi=f.fi, pred=lambda x: isinstance(x, ast.Subscript) and isinstance(x.value, ast.Subscript) and text(x.value.value) == res):
        m = cp[0]
        lp2 = [f.cfg.nodes[i] for i in m.loops]
        ok = bool(lp2) and text(lp2[-1].ast.iter) == f'{pmap}.items()'
        kv = [x.id for x in ast.walk(lp2[-1].ast.target) if isinstance(x, ast.Name)] if lp2 else []
        v = m.ast.value
        nm_ = text(m.ast.targets[0].value.slice)
        ok = ok and len(kv) == 2 and text(m.ast.targets[0].slice) == kv[0] and isinstance(v, ast.Subscript) \
            and f.etext(m.id, v.value, stop=(nm_,)) in (f'self[{nm_}]', f"self.__dict__['_' + {nm_}]") \
            and text(v.slice) == kv[1] and len(lp2) >= 2 and text(lp2[-2].ast.target) == nm_
        R.check(ok, VR, 'map-consume:' + text(m.ast), 'values are copied new <- old through the map (no crossing)',
                f'`{text(m.ast)}` with `for {text(lp2[-1].ast.target) if lp2 else "?"} in positions.items()` crosses or misuses the position map', where=f.where(m))
    # span of the result
    sp = [x for x in f.cfg.nodes if x.kind == 'stmt' and isinstance(x.ast, ast.Assign) and dict_slot(x.ast.targets[0]) is not None and is_const(dict_slot(x.ast.targets[0])[1], 'span')]
    ok = len(sp) == 1 and dict_slot(sp[0].ast.targets[0])[0] == res and text(sp[0].ast.value) == (f.fi.params() + ['span'])[1]
    R.check(ok, VR, 'new-span', 'the result carries the new span', "`reindexed.__dict__['span'] = span` not found", where=f.fi.where)


def run(R) -> None:
    R.explanation = (
        'C12: the result originates from self.copy() and no statement of any reindex writes through `self`; the dtype dispatch table '
        '(bool/integer/str -> False/0/\'\' or coerced value; otherwise None -> NaN via np.full) extracted from guards; model defaults for '
        'status/iterations equal the initial values in ModelInterface.__init__ (writer/reader agreement) and keep caller-supplied fills; '
        'precedence fill_values.get(name, fill_value); strict resolution and KeyError before the copy; direction of the new->old position '
        'map at construction and consumption. Does not decide label matching for repeated labels nor the pandas mixin\'s Series.reindex.'
    )
    R.rule('C12.R1', lambda: r1_fresh(R))
    R.rule('C12.R2', lambda: r2_fill_defaults(R))
    R.rule('C12.R3', lambda: r3_precedence(R))
    R.rule('C12.R4', lambda: r4_strict(R))
    R.rule('C12.R5', lambda: r5_position_map(R))
