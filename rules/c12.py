"""C12 - reindex preserves overlapping periods and fills the rest, on a fresh object.

R1 fresh result / untouched original, R2 fill defaults, R3 precedence,
R4 strict, R5 position map direction.
"""

from __future__ import annotations

import ast
from typing import Dict, List, Optional

from fsa.consts import fold_enum
from fsa.effects import effect_nodes, local_aliases_of, direct_writes
from fsa.match import Unknown, dict_slot, dotted, enum_value_ref, is_call, is_const, is_self_call, is_super_call, is_underscore_key, kwarg, method_call, has_star_kwargs
from fsa.source import Unsupported, iter_own_nodes, stmt_key, text
from rules.common import Fn

VR = 'fsic.core.containers.VectorContainer.reindex'
MR = 'fsic.core.models.BaseModel.reindex'
PR = 'fsic.extensions.model.PandasIndexFeaturesMixin.reindex'


def _result_name(f) -> str:
    """The local that holds the object reindex returns."""
    rets = f.returns()
    if len(rets) == 1 and isinstance(rets[0].ast.value, ast.Name):
        return rets[0].ast.value.id
    raise Unsupported(f'{f.q}: expected one `return <name>`')


def _copy_like(f: Fn, d, res: str):
    """Is `res = self.__class__(...)` followed by `res.__dict__.update({k: ... for k, v in self.__dict__.items()})` as good as
    self.copy() for reindex()?  Every entry must be deep-copied, except the arrays of the variables (the `'_' + name`
    entries for the names in `index`), which reindex() rebuilds one by one.  (True/False/None, reason)."""
    v = d.ast.value
    if not (isinstance(v, ast.Call) and text(v.func) in ('self.__class__', 'type(self)', 'self.__class__.__new__', 'type(self).__new__', 'object.__new__')):
        return (False, 'the result does not start as a copy of the object') if (isinstance(v, ast.Name) and v.id == 'self') else (None, 'not a new instance of the class')
    ups = [n for n in f.cfg.nodes if n.kind == 'stmt' and n.ast is not None and d.id in f.dom[n.id] and isinstance(n.ast, ast.Expr)
           and method_call(n.ast.value, 'update') and text(n.ast.value.func.value) == f'{res}.__dict__']
    if len(ups) != 1 or len(ups[0].ast.value.args) != 1:
        return (None, f'{len(ups)} `{res}.__dict__.update(...)` after it')
    dc = f.expand(ups[0].id, ups[0].ast.value.args[0], depth=2)
    if not (isinstance(dc, ast.DictComp) and len(dc.generators) == 1 and text(dc.generators[0].iter) == 'self.__dict__.items()'
            and isinstance(dc.generators[0].target, ast.Tuple) and len(dc.generators[0].target.elts) == 2):
        return (None, f'the update `{text(dc)[:60]}` is not a comprehension over every entry of self.__dict__')
    k_, v_ = (text(e) for e in dc.generators[0].target.elts)

    def is_variables(coll) -> bool:
        if isinstance(coll, ast.Name) and coll.id in f.lf.locals and coll.id not in f.mutated_in_place():
            vals = f.lf.values_reaching(ups[0].id, coll.id)
            if len(vals) == 1 and vals[0][1] is not None:
                coll = vals[0][1]
        return isinstance(coll, (ast.SetComp, ast.ListComp, ast.GeneratorExp)) and len(coll.generators) == 1 and not coll.generators[0].ifs \
            and text(coll.generators[0].iter) in ("self.__dict__['index']", 'self.index') \
            and text(coll.elt) in (f"'_' + {text(coll.generators[0].target)}", f"f'_{{{text(coll.generators[0].target)}}}'")

    # entries filtered out altogether: only what reindex() sets itself afterwards (the variables' arrays, the span)
    from fsa.match import conj_atoms
    for c_ in dc.generators[0].ifs:
        for a_ in conj_atoms(c_):
            ok_ = False
            if isinstance(a_, ast.Compare) and len(a_.ops) == 1 and text(a_.left) == k_:
                if isinstance(a_.ops[0], ast.NotIn) and is_variables(a_.comparators[0]):
                    ok_ = True
                if isinstance(a_.ops[0], ast.NotEq) and is_const(a_.comparators[0], 'span'):
                    ok_ = True
            if not ok_:
                return (None, f'entries are filtered by `{text(a_)[:50]}`')
    if text(dc.key) != k_:
        return (None, 'entries are stored under other keys')
    val = dc.value
    deep = lambda e: is_call(e, 'copy.deepcopy', 'deepcopy') and len(e.args) >= 1 and text(e.args[0]) == v_
    if deep(val):
        return (True, 'every entry deep-copied')
    if (is_call(val, 'copy.copy', 'copy') and len(val.args) == 1 and text(val.args[0]) == v_) or text(val) == v_:
        return (False, f'the entries of self.__dict__ are carried over as `{text(val)}` (shallow): mutable attributes (the list `index`, lists and dicts added as attributes) are shared '
                       f'between the original and the reindexed object')
    if isinstance(val, ast.IfExp):
        test, a, b = val.test, val.body, val.orelse
        if isinstance(test, ast.UnaryOp) and isinstance(test.op, ast.Not):
            test, a, b = test.operand, b, a
        if not deep(b):
            return (False, f'entries other than the skipped ones are `{text(b)[:40]}`, not deep copies')
        # which entries are skipped?  Only the variables' arrays may be
        if isinstance(test, ast.Compare) and len(test.ops) == 1 and isinstance(test.ops[0], ast.In) and text(test.left) == k_:
            coll = test.comparators[0]
            if is_variables(coll):
                return (True, 'every entry deep-copied except the arrays of the variables in `index`, which are rebuilt')
            return (None, f'skipped keys `{text(coll)[:60]}` not recognised as the variables of `index`')
        names = {x.id for x in ast.walk(test) if isinstance(x, ast.Name)}
        if v_ in names and k_ not in names:
            return (False, f'entries are left out by what they hold (`{text(test)[:50]}`), not by being a variable of `index`: an attribute with such a value is not carried over '
                           f'(it comes back as `{text(a)[:20]}`), only variables are rebuilt afterwards')
        return (None, f'skip test `{text(test)[:50]}` not read')
    return (None, f'entry values `{text(val)[:50]}` not read')


def r1_fresh(R) -> None:
    f = Fn(R, VR)
    res = _result_name(f)
    ds = f.assigns_to(res)
    if not ds:
        R.violation(VR, 'fresh:?', f'`{res}` is never assigned', where=f.fi.where, mismatch=True)
    for d in ds:
        v = d.ast.value
        if is_self_call(v, 'copy') and not v.args:
            R.check(True, VR, 'fresh:' + text(v), 'the result starts as self.copy() (deep by C11.R2)', '', where=f.where(d))
            continue
        verdict, why = _copy_like(f, d, res)
        if verdict is None:
            raise Unknown(f'{VR}: `{res} = {text(v)[:60]}` - whether this is a deep copy of everything reindex() does not rebuild was not decided ({why})')
        R.check(verdict, VR, 'fresh:' + text(v)[:50], 'the result starts as a deep copy of the object (variables aside, which are rebuilt)',
                f'`{res}` is `{text(v)[:60]}`, not self.copy(): {why}', where=f.where(d), decided=True)
    rets = f.returns()
    R.check(len(rets) == 1 and text(rets[0].ast.value) == res, VR, 'returns-new', 'the new object is returned', 'reindex does not return `reindexed`', where=f.fi.where)
    for q in (VR, MR, PR):
        fi = R.repo.func(q)
        ws = direct_writes(fi.node, {'self'})
        for (n, why) in ws:
            R.violation(q, 'writes-self:' + text(n)[:60], f'reindex writes the original object: {why}', where=f'{fi.module.relpath}:{getattr(n, "lineno", 0)}')
        # calls of writing methods on self
        from rules.solver_common import effects_of
        eff = effects_of(R.repo)
        bad = [x for x in ast.walk(fi.node) if is_self_call(x) and eff.method_writes(x.func.attr) and x.func.attr not in ('copy', 'reindex')]
        for x in bad:
            R.violation(q, 'calls-writer:' + text(x.func), f'reindex calls `{text(x.func)}()` on the original object, which may modify it', where=f'{fi.module.relpath}:{x.lineno}')
        if not ws and not bad:
            R.ok(q, 'no write whose receiver is the original object')
    # BaseModel / pandas variants delegate to the base reindex
    for q in (MR, PR):
        fi = R.repo.func(q)
        calls = [x for x in ast.walk(fi.node) if is_super_call(x, 'reindex')]
        R.require(q, len(calls), 'super().reindex(...)', fi=fi, pred=lambda x: is_super_call(x, 'reindex'))


def _stmt_of(fnode, se, node):
    best = None
    for s_ in ast.walk(fnode):
        if isinstance(s_, ast.stmt) and id(s_) in se.before and any(x is node for x in ast.walk(s_)):
            if best is None or any(x is s_ for x in ast.walk(best)):
                best = s_
    if best is None:
        raise Unsupported('statement not visited by the symbolic evaluator')
    return best


def r2_fill_defaults(R) -> None:
    from fsa.gated import SymExec, canon
    f = Fn(R, VR)
    # the fill value handed to np.full for each rebuilt series, as one gated expression
    stores = [n for n in f.cfg.nodes if n.kind == 'stmt' and isinstance(n.ast, ast.Assign) and dict_slot(n.ast.targets[0]) is not None
              and is_underscore_key(dict_slot(n.ast.targets[0])[1]) is not None]
    want = {'bool': ('False', 'bool'), 'np.integer': ('0', 'int'), 'str': ("''", 'str')}
    if stores and is_call(stores[0].ast.value, 'np.full', 'numpy.full') and len(stores[0].ast.value.args) >= 2:
        se = f.symexec()
        st = stores[0].ast
        nm_key = text(is_underscore_key(dict_slot(st.targets[0])[1]))
        fill = canon(se.value(st, st.value.args[1]))
        dts = {f'self[{nm_key}].dtype', f"self.__dict__['_' + {nm_key}].dtype", f'self.__getitem__({nm_key}).dtype'}
        rows = {}
        cur = fill
        while isinstance(cur, ast.IfExp) and is_call(cur.test, 'np.issubdtype', 'numpy.issubdtype') and len(cur.test.args) == 2 and text(cur.test.args[0]) in dts:
            rows[text(cur.test.args[1])] = cur.body
            cur = cur.orelse
        base = cur
        if any(is_call(x, 'np.issubdtype', 'numpy.issubdtype') for x in ast.walk(base)):
            raise Unsupported(f'{VR}: dtype dispatch of the fill value not modelled: `{text(base)[:80]}`')
        for kind, (dflt, fn) in want.items():
            row = rows.get(kind)
            if row is None:
                R.violation(VR, f'dtype-row-missing:{kind}', f'no fill rule for dtype family `{kind}` (such series cannot hold NaN)', where=f.where(stores[0]), mismatch=True)
                continue
            none_v = other_v = None
            if isinstance(row, ast.IfExp) and text(row.test) == f'{text(base)} is None':
                none_v, other_v = text(row.body), text(row.orelse)
            elif isinstance(row, ast.IfExp) and isinstance(row.test, ast.Compare) and isinstance(row.test.ops[0], ast.Is) and text(row.test.comparators[0]) == 'None':
                none_v, other_v = text(row.body), text(row.orelse) + f'  [tested on `{text(row.test.left)[:40]}`]'
            else:
                none_v = other_v = text(row)
            R.check(none_v == dflt, VR, f'fill-default:{kind}:{none_v[:40]}', f'{kind} series are filled with {dflt} when no fill value is given',
                    f'default fill for {kind} series is `{none_v[:60]}`, expected `{dflt}`', where=f.where(stores[0]))
            R.check(other_v == f'{fn}({text(base)})', VR, f'fill-coerce:{kind}:{other_v[:40]}', f'a given fill value is coerced with {fn}(value)',
                    f'given fill for {kind} series becomes `{other_v[:80]}`, expected `{fn}(value)`', where=f.where(stores[0]))
        # precedence of what is coerced: per-variable fill, else fill_value
        okp = method_call(base, 'get') and text(base.func.value) == 'fill_values' and [text(a_) for a_ in base.args] == [nm_key, 'fill_value']
        R.check(okp, VR, 'fill-source:' + text(base)[:50], 'the fill is the per-variable value, else fill_value', f'the fill value starts as `{text(base)[:70]}`', where=f.where(stores[0]))
    # np.full(len(span), value, dtype=old)
    stores = [n for n in f.cfg.nodes if n.kind == 'stmt' and isinstance(n.ast, ast.Assign) and dict_slot(n.ast.targets[0]) is not None
              and is_underscore_key(dict_slot(n.ast.targets[0])[1]) is not None]
    if R.require(VR, len(stores), "reindexed.__dict__['_' + name] = np.full(len(span), value, dtype=old dtype)", fi=f.fi, pred=lambda x: is_call(x, 'np.full')):
        v = stores[0].ast.value
        ok = is_call(v, 'np.full', 'numpy.full') and len(v.args) >= 2 and f.etext(stores[0].id, v.args[0]) == 'len(span)'
        R.check(ok, VR, 'new-array:' + text(v)[:60], 'new series have len(new span) and the chosen fill', f'`{text(v)[:70]}`', where=f.where(stores[0]))
        R.check(dict_slot(stores[0].ast.targets[0])[0] == _result_name(f), VR, 'new-array-owner', 'the new arrays go into the copy', 'the new array is stored in the original', where=f.where(stores[0]))
    # model defaults equal the initial values in ModelInterface.__init__
    g = Fn(R, MR)
    init = R.repo.func('fsic.core.interfaces.ModelInterface.__init__')
    inits = {}
    for x in ast.walk(init.node):
        if is_super_call(x, 'add_variable') and x.args and isinstance(x.args[0], ast.Constant) and len(x.args) >= 2:
            inits[x.args[0].value] = x.args[1]
    # what the base reindex receives as per-variable fills: layers, lowest precedence first - 'caller' for the caller's
    # **fill_values, a {key: default} table for each set of defaults - read off the statements that build the mapping
    calls = [x for x in ast.walk(g.fi.node) if is_super_call(x, 'reindex')]
    if not R.require(MR, len(calls), 'super().reindex(...)', fi=g.fi, pred=lambda x: isinstance(x, ast.Call) and isinstance(x.func, ast.Attribute) and x.func.attr == 'reindex'):
        return
    c = calls[0]
    star = [k.value for k in c.keywords if k.arg is None]
    kwparam = g.fi.node.args.kwarg.arg if g.fi.node.args.kwarg else None
    if len(star) == 1 and isinstance(star[0], ast.Dict) and kwparam is not None:
        layers = _display_layers(R, g, star[0], kwparam)
    elif len(star) != 1 or not isinstance(star[0], ast.Name) or kwparam is None:
        raise Unknown(f'{MR}: the per-variable fills handed to the base reindex are `{[text(x) for x in star]}`')
    else:
        K = star[0].id
        layers = _fill_layers(R, g, K, kwparam)
    for key in ('status', 'iterations'):
        pos = [i for i, l_ in enumerate(layers) if l_ != 'caller' and key in l_]
        ci = layers.index('caller') if 'caller' in layers else None
        if not pos:
            R.violation(MR, f'missing:model-default:{key}', f"no default for `{key}` reaches the base reindex: new periods of `{key}` get the dtype default, not the initial value",
                        where=g.fi.where, mismatch=True)
            continue
        top = max(pos)
        R.check(ci is not None and ci > top, MR, f'model-default-keeps-caller:{key}', f"a caller-supplied fill for `{key}` is kept",
                f"the default for `{key}` is applied over (or instead of) a caller-supplied fill", where=g.fi.where)
        dv = layers[top][key]
        if key in inits:
            same = ast.dump(dv) == ast.dump(inits[key])
            R.check(same, MR, f'model-default:{key}:{text(dv)}', f'new periods get the initial `{key}` value ({text(inits[key])})',
                    f"reindex default for `{key}` is `{text(dv)}` but ModelInterface.__init__ initialises it with `{text(inits[key])}`", where=g.fi.where)
    # and they are forwarded
    ok = c.args and text(c.args[0]) == 'span' and text(kwarg(c, 'fill_value') or ast.Constant(0)) == 'fill_value' \
        and text(kwarg(c, 'strict') or ast.Constant(0)) == 'strict'
    R.check(ok, MR, 'model-forwarding', 'span, fill_value, strict and the per-variable fills are forwarded to the base reindex',
            f'`{text(c)[:80]}` does not forward span/fill_value/strict/**fill_values', where=g.fi.where)
    rets = g.returns()
    R.check(len(rets) == 1 and rets[0].ast.value is c, MR, 'model-returns-base', 'the base result is returned', 'BaseModel.reindex does not return the base result', where=g.fi.where)


def _class_table(R, g, e: ast.AST):
    """`self.NAME` / `cls.NAME` / `type(self).NAME` / `<Class>.NAME` as the dictionary literal assigned in the class body (or
    a base's): {key: value expression}; None if it is not one."""
    if not isinstance(e, ast.Attribute):
        return None
    from fsa.source import c3_mro
    try:
        mro = c3_mro(R.repo, g.fi.cls.qualname)
    except Exception:
        mro = [g.fi.cls.qualname]
    for cq in mro:
        for s_ in R.repo.classes[cq].node.body:
            tgt = s_.targets[0] if isinstance(s_, ast.Assign) and len(s_.targets) == 1 else (s_.target if isinstance(s_, ast.AnnAssign) else None)
            if tgt is not None and text(tgt) == e.attr and isinstance(getattr(s_, 'value', None), ast.Dict) and all(isinstance(k, ast.Constant) for k in s_.value.keys):
                return {k.value: v for k, v in zip(s_.value.keys, s_.value.values)}
    return None


def _display_layers(R, g, v: ast.Dict, kwparam: str):
    """Layers of a dictionary display `{**a, 'k': x, **b}` (later entries take precedence)."""
    layers = []
    cur = {}
    for k_, v_ in zip(v.keys, v.values):
        if k_ is None:
            if cur:
                layers.append(cur)
                cur = {}
            if text(v_) == kwparam:
                layers.append('caller')
                continue
            tab = _class_table(R, g, v_)
            if tab is None and isinstance(v_, ast.Name) and v_.id in g.lf.locals and v_.id not in g.mutated_in_place():
                ds = g.assigns_to(v_.id)
                if len(ds) == 1 and isinstance(ds[0].ast.value, ast.Dict) and all(isinstance(x, ast.Constant) for x in ds[0].ast.value.keys):
                    tab = {x.value: y for x, y in zip(ds[0].ast.value.keys, ds[0].ast.value.values)}
            if tab is None:
                raise Unknown(f'{MR}: `**{text(v_)}` in `{text(v)[:50]}` is not a table this rule can read')
            layers.append(tab)
        elif isinstance(k_, ast.Constant):
            cur[k_.value] = v_
        else:
            raise Unknown(f'{MR}: computed key in `{text(v)[:50]}`')
    if cur:
        layers.append(cur)
    return layers


def _fill_layers(R, g, K: str, kwparam: str):
    """Layers of the mapping `K` handed on as **K, lowest precedence first ('caller' | {key: default})."""
    layers = None
    if K == kwparam:
        layers = ['caller']
    stmts = [n for n in g.cfg.nodes if n.kind in ('stmt', 'for') and n.ast is not None]
    done_loops = set()
    for n in stmts:
        a_ = n.ast
        mentions = any(isinstance(x, ast.Name) and x.id == K for x in ast.walk(a_ if n.kind == 'stmt' else a_.iter))
        if n.kind == 'for':
            # for name, value in TABLE.items(): K.setdefault(name, value) / K[name] = value
            body = [b for b in a_.body if not (isinstance(b, ast.Expr) and isinstance(b.value, ast.Constant))]
            if len(body) == 1 and any(isinstance(x, ast.Name) and x.id == K for x in ast.walk(body[0])):
                tg = [x.id for x in ast.walk(a_.target) if isinstance(x, ast.Name)]
                tab = _class_table(R, g, a_.iter.func.value) if method_call(a_.iter, 'items') else None
                b0 = body[0]
                if tab is None or len(tg) != 2 or layers is None:
                    raise Unknown(f'{MR}: `{text(a_)[:60]}` fills `{K}` from a table this rule cannot read')
                if isinstance(b0, ast.Expr) and method_call(b0.value, 'setdefault') and text(b0.value.func.value) == K and [text(x) for x in b0.value.args] == tg:
                    layers.insert(0, tab)
                elif isinstance(b0, ast.Assign) and isinstance(b0.targets[0], ast.Subscript) and text(b0.targets[0].value) == K and text(b0.targets[0].slice) == tg[0] \
                        and text(b0.value) == tg[1]:
                    layers.append(tab)
                else:
                    raise Unknown(f'{MR}: `{text(b0)[:60]}` in a loop over a table: not a setdefault / store of its entries')
                done_loops.add(n.id)
            continue
        if not mentions or any(l in done_loops for l in n.loops):
            continue
        if n.loops or len(g.guards_of(n.id)) > 0 and any(g.cfg.nodes[t].kind == 'test' for (t, _l) in g.guards_of(n.id)):
            raise Unknown(f'{MR}: `{text(a_)[:60]}` changes `{K}` conditionally; the layers of defaults are not read there')
        # definition of a local K
        if isinstance(a_, (ast.Assign, ast.AnnAssign)) and text(a_.targets[0] if isinstance(a_, ast.Assign) else a_.target) == K:
            v = a_.value
            if (is_call(v, 'dict') and len(v.args) == 1 and text(v.args[0]) == kwparam and not v.keywords) or (method_call(v, 'copy') and text(v.func.value) == kwparam):
                layers = ['caller']
            elif isinstance(v, ast.Dict):
                layers = _display_layers(R, g, v, kwparam)
            elif _class_table(R, g, v) is not None:
                # K *is* the class-level table (no copy): any change made through K is made to the class, for every instance
                # and every later call
                muts = [m for m in g.cfg.nodes if m.ast is not None and m.kind == 'stmt' and m.id != n.id and any(
                    (isinstance(x, ast.Call) and isinstance(x.func, ast.Attribute) and text(x.func.value) == K and x.func.attr in ('update', 'setdefault', 'pop', 'clear', 'popitem', '__setitem__'))
                    or (isinstance(x, ast.Subscript) and text(x.value) == K and isinstance(x.ctx, (ast.Store, ast.Del)))
                    or (isinstance(x, ast.AugAssign) and text(x.target) == K) for x in ast.walk(m.ast))]
                if muts:
                    R.violation(MR, f'class-state-mutated:{text(v)}', f'`{text(a_)[:50]}` names the class-level table itself and `{text(muts[0].ast)[:50]}` changes it in place: '
                                f'the fills of one call stay in `{text(v)}` for every later call and every other instance (reindex must affect nothing but its result)',
                                where=g.where(muts[0]))
                layers = [_class_table(R, g, v)]
            else:
                raise Unknown(f'{MR}: `{text(a_)[:60]}` defines `{K}` in a form this rule cannot read')
            continue
        if layers is None:
            raise Unknown(f'{MR}: `{text(a_)[:60]}` uses `{K}` before a definition this rule can read')
        # K[key] = K.get(key, D) | K[key] = D | K.setdefault(key, D) | K.update({...})
        if isinstance(a_, ast.Assign) and isinstance(a_.targets[0], ast.Subscript) and text(a_.targets[0].value) == K and isinstance(a_.targets[0].slice, ast.Constant):
            key = a_.targets[0].slice.value
            v = a_.value
            if method_call(v, 'get') and text(v.func.value) == K and len(v.args) == 2 and is_const(v.args[0], key):
                layers.insert(0, {key: v.args[1]})
            else:
                layers.append({key: v})
            continue
        if isinstance(a_, ast.Expr) and method_call(a_.value, 'setdefault') and text(a_.value.func.value) == K and len(a_.value.args) == 2 and isinstance(a_.value.args[0], ast.Constant):
            layers.insert(0, {a_.value.args[0].value: a_.value.args[1]})
            continue
        if isinstance(a_, ast.Expr) and method_call(a_.value, 'update') and text(a_.value.func.value) == K and len(a_.value.args) == 1 and text(a_.value.args[0]) == kwparam:
            layers.append('caller')
            continue
        if isinstance(a_, ast.Expr) and method_call(a_.value, 'update') and text(a_.value.func.value) == K and len(a_.value.args) == 1 and isinstance(a_.value.args[0], ast.Dict) \
                and all(isinstance(k_, ast.Constant) for k_ in a_.value.args[0].keys):
            layers.append({k_.value: v_ for k_, v_ in zip(a_.value.args[0].keys, a_.value.args[0].values)})
            continue
        if any(is_super_call(x, 'reindex') for x in ast.walk(a_)):
            continue
        raise Unknown(f'{MR}: `{text(a_)[:60]}` uses `{K}` in a form this rule cannot read')
    if layers is None:
        raise Unknown(f'{MR}: no readable definition of `{K}`')
    return layers


def r3_precedence(R) -> None:
    f = Fn(R, VR)
    res = _result_name(f)
    gets = f.nodes_with(lambda x: method_call(x, 'get') and text(x.func.value) == 'fill_values')
    if R.require(VR, len(gets), 'value = fill_values.get(name, fill_value)', fi=f.fi, pred=lambda x: method_call(x, 'get')):
        v = [x for x in ast.walk(gets[0].ast) if method_call(x, 'get') and text(x.func.value) == 'fill_values'][0]
        lp = [f.cfg.nodes[i] for i in gets[0].loops]
        tv = text(lp[-1].ast.target) if lp else '?'
        ok = [text(a) for a in v.args] == [tv, 'fill_value']
        R.check(ok, VR, 'precedence:' + text(v), 'per-variable fill, else fill_value, else the dtype default', f'the fill is looked up as `{text(v)}`', where=f.where(gets[0]))
        R.check(bool(lp) and f.etext(lp[-1].id, lp[-1].ast.iter, stop=(res,)) in (f'{res}.index', 'self.index', f"{res}.__dict__['index']", "self.__dict__['index']")
                and isinstance(lp[-1].ast.target, ast.Name), VR, 'every-variable',
                'every variable of the container is rebuilt', 'the rebuild loop does not iterate the container index', where=f.fi.where)


def r4_strict(R) -> None:
    for q, names_attr in ((VR, 'self.index'), (PR, 'self.names')):
        f = Fn(R, q)
        ks = f.raises('KeyError')
        if not R.require(q, len(ks), 'raise KeyError for unknown fill keys under strict', fi=f.fi, pred=lambda x: isinstance(x, ast.Raise)):
            continue
        k = ks[0]
        atoms = [(text(a), truth) for (a, truth, _t) in f.guard_atoms(k.id)]
        # the set of unknown keys, by role: the local defined as `set(<fill keys>) - set(<the variables>)`, whatever its name
        UV = 'undefined_variables'
        for n_ in f.cfg.nodes:
            if n_.kind == 'stmt' and isinstance(n_.ast, ast.Assign) and len(n_.ast.targets) == 1 and isinstance(n_.ast.targets[0], ast.Name) \
                    and text(n_.ast.value) == f'set(fill_values.keys()) - set({names_attr})':
                UV = n_.ast.targets[0].id
        R.check(('strict', True) in atoms and ((UV, True) in atoms or (f'len({UV}) > 0', True) in atoms or (f'len({UV})', True) in atoms), q, 'strict-guard:' + repr(atoms)[:80],
                'unknown fill keys are rejected exactly under strict', f'KeyError guard is {atoms}', where=f.where(k))
        ds = [d for d in f.assigns_to('strict')]
        ok = len(ds) == 1 and text(ds[0].ast.value) == 'self.strict' and any(truth and text(a) == 'strict is None' for (a, truth, _t) in f.guard_atoms(ds[0].id))
        R.check(ok, q, 'strict-default', "strict=None means the object's own setting", 'strict default is not `if strict is None: strict = self.strict`', where=f.fi.where)
        uv = f.assigns_to(UV)
        ok = len(uv) == 1 and text(uv[0].ast.value) == f'set(fill_values.keys()) - set({names_attr})'
        R.check(ok, q, 'undefined-set', 'unknown = fill keys minus the variables', f'`{text(uv[0].ast.value) if uv else "?"}`', where=f.fi.where)
        # before the copy
        copies = f.nodes_with(lambda x: is_self_call(x, 'copy') or is_super_call(x, 'reindex'))
        for c in copies:
            R.check(not f.cfg.reaches(c.id, k.id), q, 'strict-before-copy', 'the strict check precedes any copying',
                    'the KeyError for unknown fill keys can be raised after the copy was made', where=f.where(c))


def r5_position_map(R) -> None:
    """Values travel new <- old through pairs (new position, old position of the same label), built in one loop over the
    new span.  The pairs may live in a dictionary (`positions[new] = old`) or in two parallel lists; they may be consumed
    one at a time or by one fancy-indexed assignment.  What is decided: the direction at construction and at consumption."""
    from fsa.match import nnf_atoms
    f = Fn(R, VR)
    res = _result_name(f)
    LOC = 'self._locate_period_in_span'
    # -- producers
    pairs = None   # (kind, names, loop node, new expr, old expr, site)
    for n in f.cfg.nodes:
        if n.kind != 'stmt' or not n.loops or n.ast is None:
            continue
        a_ = n.ast
        if isinstance(a_, ast.Assign) and isinstance(a_.targets[0], ast.Subscript) and isinstance(a_.targets[0].value, ast.Name) \
                and any(is_call(x, LOC) for x in ast.walk(a_)) and a_.targets[0].value.id in f.lf.locals:
            pairs = ('dict', (a_.targets[0].value.id,), f.cfg.nodes[n.loops[-1]], a_.targets[0].slice, a_.value, n)
    if pairs is None:
        apps = [n for n in f.cfg.nodes if n.kind == 'stmt' and n.loops and isinstance(n.ast, ast.Expr) and method_call(n.ast.value, 'append')
                and isinstance(n.ast.value.func.value, ast.Name) and len(n.ast.value.args) == 1]
        olds = [n for n in apps if any(is_call(x, LOC) for x in ast.walk(n.ast))]
        for o in olds:
            mates = [n for n in apps if n is not o and n.loops == o.loops and sorted(f.guards_of(n.id)) == sorted(f.guards_of(o.id))
                     and n.ast.value.func.value.id != o.ast.value.func.value.id]
            if len(mates) == 1:
                pairs = ('lists', (mates[0].ast.value.func.value.id, o.ast.value.func.value.id), f.cfg.nodes[o.loops[-1]], mates[0].ast.value.args[0], o.ast.value.args[0], o)
    if pairs is None:
        # a dictionary comprehension
        for n in f.cfg.nodes:
            if n.kind == 'stmt' and isinstance(n.ast, (ast.Assign, ast.AnnAssign)) and isinstance(n.ast.value, ast.DictComp) and any(is_call(x, LOC) for x in ast.walk(n.ast.value)):
                dc = n.ast.value
                tgt = n.ast.targets[0] if isinstance(n.ast, ast.Assign) else n.ast.target
                pairs = ('dictcomp', (text(tgt),), dc.generators[0], dc.key, dc.value, n)
    # a dictionary keyed by the *label* of the new span holds one position per distinct label
    for n in f.cfg.nodes:
        dcs = [x for x in ast.walk(n.ast) if isinstance(x, ast.DictComp)] if n.ast is not None and n.kind == 'stmt' else []
        for dc in dcs:
            g_ = dc.generators[0]
            if len(dc.generators) == 1 and is_call(g_.iter, 'enumerate') and len(g_.iter.args) == 1 and text(g_.iter.args[0]) == 'span' and isinstance(g_.target, ast.Tuple) \
                    and len(g_.target.elts) == 2 and text(dc.key) == text(g_.target.elts[1]):
                R.violation(VR, 'pairs-keyed-by-label:' + text(dc)[:60], f'`{text(dc)[:80]}` keys the positions of the new span by label: a label that occurs more than '
                            f'once in the new span keeps only its last position, so its other occurrences are left at the fill value', where=f.where(n))
                return
    if pairs is None:
        R.require(VR, 0, 'pairs (new position, old position): positions[new] = self._locate_period_in_span(label)', fi=f.fi, pred=lambda x: is_call(x, LOC))
        return
    kind, names, lp, new_e, old_e, site = pairs
    if kind == 'dictcomp':
        it, tgt, ifs = lp.iter, lp.target, lp.ifs
        conds = [(text(a_), tr) for c_ in ifs for (a_, tr) in nnf_atoms(c_, True)]
    else:
        it, tgt = lp.ast.iter, lp.ast.target
        conds = [(text(a_), tr) for (a_, tr, tn) in f.guard_atoms(site.id) if lp.id in tn.loops]
    tg = [x.id for x in ast.walk(tgt) if isinstance(x, ast.Name)]
    ok = text(it) == 'enumerate(span)' and len(tg) == 2 and text(new_e) == tg[0] and text(old_e) == f'{LOC}({tg[1]})'
    R.check(ok, VR, 'map-build:' + text(site.ast)[:80], 'each new position is paired with the old position of the same label',
            f'`{text(site.ast)[:80]}` (new: `{text(new_e)}`, old: `{text(old_e)}`, over `{text(it)}`) does not pair new -> old', where=f.where(site))
    R.check(len(tg) == 2 and conds == [(f'{tg[1]} in self.span', True)], VR, 'map-only-shared', 'only labels present in the old span are mapped', f'guard is {conds}', where=f.fi.where)
    # -- consumers: every store into an element / selection of a series of the result
    cp = [m for m in f.cfg.nodes if m.kind == 'stmt' and isinstance(m.ast, ast.Assign) and isinstance(m.ast.targets[0], ast.Subscript)
          and isinstance(m.ast.targets[0].value, ast.Subscript) and text(m.ast.targets[0].value.value) == res]
    if R.require(VR, len(cp), 'reindexed[name][new] = self[name][old]', fi=f.fi, pred=lambda x: isinstance(x, ast.Subscript) and isinstance(x.value, ast.Subscript) and text(x.value.value) == res):
        n_read = 0
        for m in cp:
            idx, v = m.ast.targets[0].slice, m.ast.value
            nm_ = text(m.ast.targets[0].value.slice)
            # where the old values are read from: the series of the deep copy the result started as (held in a local before the
            # replacement array is stored), or the original's - then element by element deep-copied, else the result and the
            # original share whatever objects the series holds (the per-period Trace objects of a tracer-extended model)
            vv = v
            deep_elem = False
            if is_call(vv, 'copy.deepcopy', 'deepcopy') and len(vv.args) == 1:
                vv, deep_elem = vv.args[0], True
            src_txt = f.etext(m.id, vv.value, stop=(nm_, res)) if isinstance(vv, ast.Subscript) else '?'
            from_orig = src_txt in (f'self[{nm_}]', f"self.__dict__['_' + {nm_}]", f"self.__dict__[f'_{{{nm_}}}']")
            from_copy = src_txt in (f'{res}[{nm_}]', f"{res}.__dict__['_' + {nm_}]", f"{res}.__dict__[f'_{{{nm_}}}']")
            if from_copy and isinstance(vv.value, ast.Name):
                # the local was bound before the replacement array was stored in the result
                repl = [x for x in f.cfg.nodes if x.kind == 'stmt' and isinstance(x.ast, ast.Assign) and dict_slot(x.ast.targets[0]) is not None
                        and dict_slot(x.ast.targets[0])[0] == res and is_underscore_key(dict_slot(x.ast.targets[0])[1]) is not None]
                defs_ = [s_ for (s_, _dv) in f.lf.values_reaching(m.id, vv.value.id)]
                from_copy = bool(repl) and all(any(f.cfg.reaches(d_, x.id) and not f.cfg.reaches(x.id, d_) or (d_ in f.dom[x.id]) for x in repl) for d_ in defs_)
            elif from_copy:
                from_copy = False       # read after the replacement: that is the new array itself
            src_ok = isinstance(vv, ast.Subscript) and (from_copy or from_orig)
            if src_ok and from_orig and not deep_elem:
                R.violation(VR, 'shares-elements:' + text(m.ast)[:50],
                            f'`{text(m.ast)[:70]}` copies each old value from the original object itself: for a series that holds objects (dtype object - the per-period Trace of a '
                            f'tracer-extended model) the result and the original then share the very same objects (a traced solve on the reindexed model grows the original\'s trace), '
                            f'although the result started as a deep copy; read the old values from that copy, or deep-copy each element', where=f.where(m))
            new_v = old_v = None
            lp2 = [f.cfg.nodes[i] for i in m.loops]
            if lp2:
                it2, tg2 = lp2[-1].ast.iter, lp2[-1].ast.target
                kv = [x.id for x in ast.walk(tg2) if isinstance(x, ast.Name)]
                if kind in ('dict', 'dictcomp') and text(it2) == f'{names[0]}.items()' and len(kv) == 2:
                    new_v, old_v = kv
                elif kind == 'lists' and is_call(it2, 'zip') and len(it2.args) == 2 and len(kv) == 2 and {text(a_) for a_ in it2.args} == set(names):
                    order = [text(a_) for a_ in it2.args]
                    new_v, old_v = kv[order.index(names[0])], kv[order.index(names[1])]
            if new_v is None and kind == 'lists' and isinstance(idx, ast.Name) and isinstance(v, ast.Subscript) and isinstance(v.slice, ast.Name) \
                    and {idx.id, v.slice.id} == set(names):
                new_v, old_v = names      # one fancy-indexed assignment over the two lists
            if new_v is None and kind in ('dict', 'dictcomp') and isinstance(idx, ast.Name) and isinstance(v, ast.Subscript) and isinstance(v.slice, ast.Name):
                # one fancy-indexed assignment over list(P.keys()) / list(P.values()); a slice may stand in for such a list only
                # where the list was compared, element for element, with a range
                ok_lists = True
                for (nm2, meth) in ((idx.id, 'keys'), (v.slice.id, 'values')):
                    for (site_, dv) in f.lf.values_reaching(m.id, nm2):
                        if dv is not None and is_call(dv, 'list') and len(dv.args) == 1 and text(dv.args[0]) == f'{names[0]}.{meth}()':
                            continue
                        if dv is not None and is_call(dv, 'slice'):
                            facts_ = [text(a_) for (a_, tr_, _tn) in f.xguard_atoms(site_) if tr_]
                            justified = any('list(range(' in t_ and '==' in t_ for t_ in facts_)
                            # new positions come out of enumerate() in increasing order: for them, last - first == count - 1 is enough
                            if meth == 'keys' and any(f'{names[0]}.keys())[-1] - ' in t_ and '== len(' in t_ for t_ in facts_):
                                justified = True
                            if not justified:
                                R.violation(VR, f'window-unjustified:{nm2}', f'`{nm2} = {text(dv)[:50]}` replaces the list of {meth} positions by a slice under '
                                            f'`{"; ".join(facts_)[:120]}`: first/last positions (and the count) do not make the positions a contiguous increasing run '
                                            f'(e.g. [0, 2, 1, 3]), so values are copied to or from the wrong periods', where=f.where(f.cfg.nodes[site_]))
                                return
                            continue
                        ok_lists = False
                if ok_lists:
                    new_v, old_v = idx.id, v.slice.id
            if new_v is None:
                raise Unknown(f'{VR}: `{text(m.ast)[:70]}` copies values into the result in a form this rule does not read (slice / window / mask)')
            n_read += 1
            okc = src_ok and text(idx) == new_v and isinstance(vv, ast.Subscript) and text(vv.slice) == old_v
            R.check(okc, VR, 'map-consume:' + text(m.ast), 'values are copied new <- old through the pairs (no crossing)',
                    f'`{text(m.ast)}` crosses or misuses the position pairs (new is `{new_v}`, old is `{old_v}`)', where=f.where(m))
    # span of the result
    sp = [x for x in f.cfg.nodes if x.kind == 'stmt' and isinstance(x.ast, ast.Assign) and dict_slot(x.ast.targets[0]) is not None and is_const(dict_slot(x.ast.targets[0])[1], 'span')]
    ok = len(sp) == 1 and dict_slot(sp[0].ast.targets[0])[0] == res and text(sp[0].ast.value) == (f.fi.params() + ['span'])[1]
    R.check(ok, VR, 'new-span', 'the result carries the new span', "`reindexed.__dict__['span'] = span` not found", where=f.fi.where)


def r8_label_maps_keep_first(R) -> None:
    """The position of a label in a span is the position of its *first* occurrence (`list.index()`, which `obj[name, label]`
    uses).  A dictionary built from the labels of a span in forward order keeps the *last* position of a repeated label:
    `dict(zip(span, range(len(span))))`, `{label: i for i, label in enumerate(span)}`.  Spans with repeated labels are in
    the quantifier of this property."""
    SPAN = ('span', 'self.span', "self.__dict__['span']")
    n_seen = 0
    for fi in R.repo.all_functions():
        if fi.module.name != 'fsic.core.containers':
            continue
        f = None
        for x in ast.walk(fi.node):
            forward = None
            if is_call(x, 'dict') and len(x.args) == 1 and is_call(x.args[0], 'zip') and len(x.args[0].args) == 2:
                a0, a1 = x.args[0].args
                if (is_call(a1, 'range') or is_call(a1, 'itertools.count', 'count')) and not is_call(a0, 'reversed'):
                    forward = a0
            elif isinstance(x, ast.DictComp) and len(x.generators) == 1 and is_call(x.generators[0].iter, 'enumerate') and isinstance(x.generators[0].target, ast.Tuple) \
                    and len(x.generators[0].target.elts) == 2 and text(x.key) == text(x.generators[0].target.elts[1]) and text(x.value) == text(x.generators[0].target.elts[0]) \
                    and not x.generators[0].ifs:
                forward = x.generators[0].iter.args[0] if x.generators[0].iter.args else None
            if forward is None:
                continue
            if f is None:
                f = Fn(R, fi.qualname)
            node = [n for n in f.cfg.nodes if n.ast is not None and any(y is x for y in ast.walk(n.ast))]
            src = f.etext(node[0].id, forward) if node else text(forward)
            if src not in SPAN and text(forward) not in SPAN:
                continue
            n_seen += 1
            # the old span of the object (not the new one passed in): the labels that are looked up
            R.violation(fi.qualname, 'label-map-keeps-last:' + text(x)[:50],
                        f'`{text(x)[:70]}` maps each label of the span to a position in forward order, so a label that occurs more than once is mapped to its *last* position, '
                        f'while `index()` - and with it `obj[name, label]` - finds the first: for the span [2000, 2001, 2002, 2001] the reindexed object would hold, under 2001, '
                        f'the values of position 3 instead of position 1', where=f'{fi.module.relpath}:{getattr(x, "lineno", 0)}')
    fixture = ast.parse('d = dict(zip(span, range(len(span))))').body[0].value
    ok = is_call(fixture, 'dict') and is_call(fixture.args[0], 'zip')
    R.check(ok, 'selftest/fixture', 'positive-control', 'the forward label-map matcher fires on the built-in fixture', 'positive control did not match', decided=True)
    R.ok('fsic/core/containers.py', f'no dictionary from span labels to positions is built in forward order ({n_seen} found)', trivial=(n_seen == 0))


def r7_pandas_twin_defaults(R) -> None:
    """With its default arguments the pandas-based reindex() is the base reindex(): the pass that re-fills each variable through
    Series.reindex() (NaN for new periods, whatever the dtype) must not run for a variable that has neither a fill method
    nor a fill value of its own - the base result, with the dtype default, stands."""
    f = Fn(R, PR)
    stores = [n for n in f.cfg.nodes if n.kind == 'stmt' and isinstance(n.ast, ast.Assign) and isinstance(n.ast.targets[0], ast.Subscript)
              and any(method_call(x, 'reindex') and not is_super_call(x, 'reindex') for x in ast.walk(n.ast.value))]
    if not stores:
        return
    for n in stores:
        rc = [x for x in ast.walk(n.ast.value) if method_call(x, 'reindex') and not is_super_call(x, 'reindex')][0]
        fv, fm = kwarg(rc, 'fill_value'), kwarg(rc, 'method')
        if fv is None or fm is None:
            raise Unknown(f'{PR}: `{text(rc)[:60]}`: fill value / method of the Series.reindex() call not found')
        fv_t, fm_t = f.etext(n.id, fv), f.etext(n.id, fm)
        # the store is skipped when both are None ...
        from fsa.match import entails
        facts = f.xguard_atoms(n.id)
        both_none = ast.parse(f'{fm_t} is None and {fv_t} is None', mode='eval').body
        skipped = entails(facts, both_none, False)
        # ... or the fill handed to pandas is already dtype-aware
        dtype_aware = any(is_call(x, 'np.issubdtype', 'numpy.issubdtype') for x in ast.walk(f.expand(n.id, fv, depth=4)))
        R.check(skipped or dtype_aware, PR, 'pandas-default-fill:' + text(n.ast.targets[0])[:30],
                'on default arguments the pandas reindex() keeps the base result (dtype default for new periods)',
                f'`{text(n.ast)[:60]}...` runs for every variable, also when neither a fill method nor a fill value applies to it: new periods then hold what Series.reindex() '
                f'puts there (NaN) cast to the variable\'s dtype - an integer model gets -9223372036854775808 where the base reindex() gives 0 (bool: True, str: \'nan\')', where=f.where(n))


def r6_no_shared_state(R) -> None:
    """reindex() works from its arguments and the object alone: a memoised (per-class) table it consults is only read,
    never updated with one call's keywords (which every later call on the class would then see)."""
    from rules import c11
    c11.r5b_no_memoised_mutables(R, used_by=('reindex',))


def run(R) -> None:
    R.explanation = (
        'C12: the result originates from self.copy() and no statement of any reindex writes through `self`; the dtype dispatch table '
        '(bool/integer/str -> False/0/\'\' or coerced value; otherwise None -> NaN via np.full) extracted from guards; model defaults for '
        'status/iterations equal the initial values in ModelInterface.__init__ (writer/reader agreement) and keep caller-supplied fills; '
        'precedence fill_values.get(name, fill_value); strict resolution and KeyError before the copy; direction of the new->old position '
        'map at construction and consumption. Does not decide label matching for repeated labels nor the pandas mixin\'s Series.reindex.'
    )
    R.rule('C12.R1', lambda: r1_fresh(R))
    R.rule('C12.R2', lambda: r2_fill_defaults(R))
    R.rule('C12.R3', lambda: r3_precedence(R))
    R.rule('C12.R4', lambda: r4_strict(R))
    R.rule('C12.R5', lambda: r5_position_map(R))
    R.rule('C12.R6', lambda: r6_no_shared_state(R))
    R.rule('C12.R7', lambda: r7_pandas_twin_defaults(R))
    R.rule('C12.R8', lambda: r8_label_maps_keep_first(R))
