"""C08 - the linker solves its submodels jointly and consistently.

R1 iteration shape, R2 one pass per selected submodel, R3 convergence = the
single-model predicate over linker + selected submodels, R4 stamping, R5 unknown
id, R6 constructor (span comparison idiom, lags/leads maxima), R7 definite
assignment, R8 no dead option.
"""

from __future__ import annotations

import ast
from typing import Dict, List, Optional, Tuple

from fsa.cfg import CFG, raised_class
from fsa.flow import LocalFlow, PARAM, dominators, must_pass, names_loaded
from fsa.match import Unknown, dotted, is_call, is_const, is_self_call, kwarg, dict_slot, has_star_kwargs, pred_call_attr, pred_raise, pred_series_store
from fsa.source import AnchorMissing, Unsupported, iter_own_nodes, stmt_key, text
from rules import c02
from rules.solver_common import names_bound_of, SolverShape, check_convergence, fsic_hierarchy, series_stores

Q = 'fsic.core.linkers.BaseLinker.solve_t'
QE = 'fsic.core.linkers.BaseLinker.evaluate_t'
QI = 'fsic.core.linkers.BaseLinker.__init__'
OPTIONS = ['min_iter', 'max_iter', 'tol', 'offset', 'failures', 'errors', 'catch_first_error']

SUBMODEL_LOOKUPS = ("self.__dict__['submodels']", 'self.submodels')


class Selection:
    """The selection of submodels a linker method works on: the value `list(<all submodels>.keys()) if submodels is None else
    submodels`, however it is produced (an `if` that rebinds the parameter, a conditional expression, a helper method that
    returns either) - decided on the gated value of an expression at the place it is used."""

    def __init__(self, R, q: str) -> None:
        from rules.common import Fn
        self.f = Fn(R, q)
        self.se = self.f.symexec(methods=True)

    def value(self, node: ast.AST, e: ast.AST) -> ast.AST:
        from fsa.gated import canon
        from rules.c03 import _stmt_of
        return canon(self.se.value(_stmt_of(self.f.fi.node, self.se, node), e))

    @staticmethod
    def is_sel_value(v: ast.AST) -> bool:
        if not (isinstance(v, ast.IfExp) and text(v.test) == 'submodels is None' and text(v.orelse) == 'submodels'):
            return False
        b = v.body
        if isinstance(b, ast.Call) and dotted(b.func) == 'list' and len(b.args) == 1:
            inner = b.args[0]
            if isinstance(inner, ast.Call) and isinstance(inner.func, ast.Attribute) and inner.func.attr == 'keys':
                inner = inner.func.value
            return text(inner) in SUBMODEL_LOOKUPS
        return False

    def is_selection(self, node: ast.AST, e: ast.AST) -> bool:
        """Does `e`, evaluated where `node` stands, hold the selection?"""
        try:
            return self.is_sel_value(self.value(node, e))
        except Unsupported:
            return False

    def describe(self, node: ast.AST, e: ast.AST) -> str:
        try:
            return text(self.value(node, e))[:80]
        except Unsupported:
            return text(e)


_SEL: Dict[Tuple[int, str], Selection] = {}


def selection_of(R, q: str) -> Selection:
    k = (id(R), q)
    if k not in _SEL:
        _SEL[k] = Selection(R, q)
    return _SEL[k]


def _selection_default_ok(fi, cfg, lf, R, q) -> None:
    """Somewhere the method reads the selection: `None` stands for all submodels in insertion order, anything else for itself."""
    sel = selection_of(R, q)
    uses = [(n, x) for n in ast.walk(sel.f.fi.node) if isinstance(n, ast.stmt) and not isinstance(n, (ast.FunctionDef, ast.ClassDef))
            for x in ([n.iter] if isinstance(n, ast.For) else []) + [k.value for c in ast.walk(n) if isinstance(c, ast.Call) for k in c.keywords if k.arg == 'submodels']]
    ok = any(sel.is_selection(n, x) for (n, x) in uses)
    R.check(ok, q, 'selection-default', 'default selection = all submodels in insertion order',
            'no `if submodels is None: submodels = list(<all submodels>.keys())` default', where=fi.where)


def r1_iteration_shape(R, sh: SolverShape) -> None:
    trio = []
    for m in ('evaluate_t_before', 'evaluate_t', 'evaluate_t_after'):
        ns = sh.calls_self(m)
        if not R.require(sh.q, len(ns), f'self.{m}() call in the iteration loop', fi=sh.fi, pred=pred_call_attr(m)):
            return
        R.check(len(ns) == 1, sh.q, f'once:{m}', f'one call site of {m}', f'{len(ns)} call sites of self.{m}()', where=sh.where(ns[0]))
        trio.append(ns[0])
    b, e, a = trio
    for n, m in zip(trio, ('evaluate_t_before', 'evaluate_t', 'evaluate_t_after')):
        R.check(sh.in_loop(n) and n.loops[-1] == sh.loop.id, sh.q, f'in-loop:{m}', f'{m} runs once per linker iteration',
                f'self.{m}() is not directly inside the iteration loop', where=sh.where(n))
    R.check(b.id in sh.dom[e.id] and e.id in sh.dom[a.id], sh.q, 'order', 'pre-hook, submodel passes, post-hook in that order',
            'evaluate_t_before / evaluate_t / evaluate_t_after are not executed in that order', where=sh.where(e))
    body_first = [x for (x, lab) in sh.loop.succ if lab == 'iter']
    for n, m in zip(trio, ('evaluate_t_before', 'evaluate_t', 'evaluate_t_after')):
        through = all(must_pass(sh.cfg, x, sh.loop.id, [n.id]) for x in body_first)
        R.check(through, sh.q, f'every-iteration:{m}', f'every iteration runs {m}', f'some iteration skips self.{m}()', where=sh.where(n))
    # same selection passed everywhere
    for m in ('solve_t_before', 'evaluate_t_before', 'evaluate_t', 'evaluate_t_after', 'solve_t_after'):
        for n in sh.calls_self(m):
            c = sh.call_expr(n, m)
            R.count_calls()
            v = kwarg(c, 'submodels')
            R.check(isinstance(v, ast.Name) and v.id == 'submodels', sh.q, f'selection-forwarded:{m}',
                    f'{m} receives the selection', f'self.{m}() does not receive submodels=submodels', where=sh.where(n))
            a0 = c.args[0] if c.args else None
            R.check(a0 is not None and text(a0) == 't', sh.q, f'period-forwarded:{m}', f'{m} receives t',
                    f'self.{m}() is not given `t` as first argument', where=sh.where(n))
            for o in ('errors', 'catch_first_error'):
                vv = kwarg(c, o)
                R.check(isinstance(vv, ast.Name) and vv.id == o, sh.q, f'option-forwarded:{m}:{o}', f'{m} receives {o}',
                        f'self.{m}() does not receive {o}={o}', where=sh.where(n))
            R.check(has_star_kwargs(c, 'kwargs'), sh.q, f'kwargs-forwarded:{m}', f'{m} receives **kwargs',
                    f'self.{m}() does not receive **kwargs', where=sh.where(n))
            it = kwarg(c, 'iteration')
            want = '0' if m == 'solve_t_before' else sh.counter
            R.check(it is not None and text(it) == want, sh.q, f'iteration-forwarded:{m}', f'{m} receives iteration={want}',
                    f'self.{m}() receives iteration={text(it) if it is not None else "<missing>"}, expected {want}', where=sh.where(n))
    c02.r8_hooks(R, sh)
    _selection_default_ok(sh.fi, sh.cfg, sh.lf, R, sh.q)


def r2_one_pass_per_submodel(R) -> None:
    fi = R.repo.func(QE)
    cfg = CFG(fi.node, fsic_hierarchy(R.repo))
    lf = LocalFlow(cfg, fi.params())
    R.saw_function(fi, cfg)
    _selection_default_ok(fi, cfg, lf, R, QE)
    loops = [n for n in cfg.nodes if n.kind == 'for']
    if not R.expect(QE, len(loops), 1, 'loop over the selection'):
        return
    lp = loops[0]
    sel = selection_of(R, QE)
    lp_ast = [x for x in ast.walk(sel.f.fi.node) if isinstance(x, ast.For)][0]
    R.check(sel.is_selection(lp_ast, lp_ast.iter) and isinstance(lp.ast.target, ast.Name), QE, 'iterates-selection:' + text(lp.ast.iter),
            'evaluate_t iterates the selection in the order given',
            f'evaluate_t iterates `{sel.describe(lp_ast, lp_ast.iter)}`, not the selection `submodels`', where=f'{fi.module.relpath}:{lp.lineno}')
    var = lp.ast.target.id if isinstance(lp.ast.target, ast.Name) else '?'
    # submodel = <lookup>[name]
    evals = []
    incs = []
    lookups = []
    for n in cfg.nodes:
        if lp.id not in n.loops or n.ast is None:
            continue
        a = n.ast
        if isinstance(a, ast.Assign) and isinstance(a.value, ast.Subscript) and text(a.value.value) in SUBMODEL_LOOKUPS:
            lookups.append((n, a))
        if n.kind == 'stmt':
            for c in ast.walk(a):
                if isinstance(c, ast.Call) and isinstance(c.func, ast.Attribute) and c.func.attr == '_evaluate':
                    evals.append((n, c))
            if isinstance(a, ast.AugAssign) and isinstance(a.target, ast.Subscript) and isinstance(a.target.value, ast.Attribute) \
                    and a.target.value.attr == 'iterations':
                incs.append((n, a))
    if not (R.expect(QE, len(lookups), 1, 'submodel lookup')
            and R.require(QE, len(evals), 'submodel._evaluate() call per selected submodel', fi=fi, pred=pred_call_attr('_evaluate'))
            and R.require(QE, len(incs), 'submodel.iterations[t] += 1 per evaluation pass', fi=fi, pred=pred_series_store('iterations', aug=True))):
        return
    ln, la = lookups[0]
    R.check(text(la.value.slice) == var, QE, 'lookup-key', 'the submodel evaluated is the selected one',
            f'submodel lookup uses `{text(la.value.slice)}`, not the loop variable `{var}`', where=f'{fi.module.relpath}:{ln.lineno}')
    sub = text(la.targets[0])
    en, ec = evals[0]
    R.check(text(ec.func.value) == sub and ec.args and text(ec.args[0]) == 't', QE, 'evaluate-call',
            'one evaluation pass of the selected submodel at t', f'`{text(ec)[:60]}` is not `{sub}._evaluate(t, ...)`',
            where=f'{fi.module.relpath}:{en.lineno}')
    for o in ('errors', 'catch_first_error', 'iteration'):
        v = kwarg(ec, o)
        R.check(isinstance(v, ast.Name) and v.id == o, QE, f'evaluate-option:{o}', f'{o} is passed to the submodel',
                f'submodel._evaluate() does not receive {o}={o}', where=f'{fi.module.relpath}:{en.lineno}')
    R.check(has_star_kwargs(ec, 'kwargs'), QE, 'evaluate-kwargs', '**kwargs passed to the submodel', 'submodel._evaluate() does not receive **kwargs',
            where=f'{fi.module.relpath}:{en.lineno}')
    inn, ia = incs[0]
    ok = text(ia.target.value.value) == sub and text(ia.target.slice) == 't' and isinstance(ia.op, ast.Add) and is_const(ia.value, 1)
    R.check(ok, QE, 'iteration-increment:' + text(ia), "the submodel's iteration count grows by one per pass",
            f'`{text(ia)}` is not `{sub}.iterations[t] += 1`', where=f'{fi.module.relpath}:{inn.lineno}')
    for n, what in ((en, '_evaluate'), (inn, 'increment')):
        R.check(n.loops[-1] == lp.id, QE, f'once-per-element:{what}', f'{what}: once per selected submodel',
                f'{what} is nested in an inner loop', where=f'{fi.module.relpath}:{n.lineno}')
        first = [b for (b, lab) in lp.succ if lab == 'iter']
        R.check(all(must_pass(cfg, b, lp.id, [n.id]) for b in first), QE, f'every-element:{what}', f'{what}: for every selected submodel',
                f'{what} can be skipped for a selected submodel', where=f'{fi.module.relpath}:{n.lineno}')
    # no reference to the full submodel dict inside the loop other than the lookup
    others = []
    for n in cfg.nodes:
        if lp.id in n.loops and n.ast is not None and n is not ln:
            for x in ast.walk(n.ast) if n.kind == 'stmt' else []:
                if isinstance(x, (ast.Attribute, ast.Subscript)) and text(x) in SUBMODEL_LOOKUPS:
                    others.append(n)
    R.check(not others, QE, 'unselected-untouched', 'unselected submodels are not referenced',
            'the pass loop references the full submodel mapping besides the lookup', where=fi.where)


def r3_convergence(R, sh: SolverShape) -> None:
    check_convergence(R, sh)
    # what is compared is the state after the *whole* pass: pre-hook, submodel passes and post-hook
    from rules.solver_common import value_roles as _roles
    try:
        cur_, _p = _roles(sh)
        after = sh.calls_self('evaluate_t_after')
        rereads = [n for n in sh.cfg.nodes if n.kind == 'stmt' and isinstance(n.ast, ast.Assign) and len(n.ast.targets) == 1 and text(n.ast.targets[0]) == cur_ and sh.in_loop(n)]
        conv_, _x = sh.convergence_node()
        if after and rereads:
            # the definition of the current values that reaches the convergence test was read after the post-hook
            reaching = [n for n in rereads if n.id in sh.lf.defs_reaching(conv_.id, cur_)]
            ok = bool(reaching) and all(after[0].id in sh.dom[n.id] for n in reaching)
            R.check(ok, sh.q, 'reread-after-post-hook', 'the values tested for convergence are read after evaluate_t_after()',
                    f'`{cur_}` as tested for convergence is read before self.evaluate_t_after(): what the post-hook writes in the final pass is never compared',
                    where=sh.where(reaching[0] if reaching else rereads[0]))
    except AnchorMissing:
        pass
    c02.r3_loop_bounds(R, sh)
    c02.r4_min_iter_gate(R, sh)
    # coverage of the check values
    gq = Q + '.<locals>.get_check_values'
    g = R.repo.func(gq)
    own = False
    sel = False
    for n in ast.walk(g.node):
        if isinstance(n, ast.ListComp) or isinstance(n, ast.GeneratorExp):
            it = text(n.generators[0].iter)
            if it in ('self.check', "self.__dict__['check']"):
                e = n.elt
                if isinstance(e, ast.Subscript) and text(e.slice) == 't':
                    own = True
            if it.endswith('.check') and it.split('.')[0] != 'self':
                e = n.elt
                if isinstance(e, ast.Subscript) and text(e.slice) == 't':
                    sel = True
    R.check(own, gq, 'own-check-values', "the linker's own check variables at t are part of the test",
            "get_check_values() omits the linker's own check variables", where=g.where)
    R.check(sel, gq, 'submodel-check-values', "each submodel's check variables at t are part of the test",
            "get_check_values() omits the submodels' check variables", where=g.where)
    # the linker's own values share a dictionary with the submodels' (keyed by id): their key must be one no submodel can
    # have - the linker's name, which the constructor keeps apart from the ids - not a fixed literal
    for d_ in ast.walk(g.node):
        pairs_ = []
        if isinstance(d_, ast.Dict):
            pairs_ = [(k_, v_) for k_, v_ in zip(d_.keys, d_.values) if k_ is not None]
        elif isinstance(d_, ast.Assign) and isinstance(d_.targets[0], ast.Subscript):
            pairs_ = [(d_.targets[0].slice, d_.value)]
        for (k_, v_) in pairs_:
            if any(isinstance(x, (ast.ListComp, ast.GeneratorExp)) and text(x.generators[0].iter) in ('self.check', "self.__dict__['check']") for x in ast.walk(v_)):
                if isinstance(k_, ast.Constant):
                    R.violation(gq, 'own-values-key-literal:' + text(k_),
                                f"the linker's own check values are kept under the fixed key {text(k_)} in the dictionary that also holds the submodels' values by id: a submodel "
                                f"whose id is {text(k_)} replaces them, and the linker's own check variables no longer take part in the convergence test (the period is declared "
                                f"solved while they still move)", where=f'{g.module.relpath}:{k_.lineno}')
                else:
                    R.check(text(k_) in ('self.name', "self.__dict__['name']"), gq, 'own-values-key:' + text(k_)[:30],
                            "the linker's own check values are kept under the linker's name (distinct from every submodel id)",
                            f"the linker's own check values are kept under `{text(k_)}`, which a submodel id may equal", where=f'{g.module.relpath}:{k_.lineno}')
    # the submodel entries are those selected: loop over all submodels filtered by `k in submodels`, or over the selection
    # every iteration over the submodels is either over the selection itself or filtered by membership in it
    def over_all(it: ast.AST) -> bool:
        if isinstance(it, ast.Call) and isinstance(it.func, ast.Attribute) and it.func.attr in ('items', 'keys', 'values') and not it.args:
            it = it.func.value
        return text(it) in SUBMODEL_LOOKUPS

    def in_selection(test: ast.AST, keyvar: str, positive: bool = True) -> bool:
        from fsa.match import nnf_atoms
        for (a, truth) in nnf_atoms(test, positive):
            if truth and isinstance(a, ast.Compare) and len(a.ops) == 1 and isinstance(a.ops[0], ast.In) and text(a.comparators[0]) == 'submodels' \
                    and text(a.left) == keyvar:
                return True
        return False

    def keyvar_of(target: ast.AST, it: ast.AST) -> str:
        if isinstance(target, ast.Tuple) and target.elts:
            return text(target.elts[0])
        return text(target)

    def restricted_local(it: ast.AST) -> bool:
        """An iteration over a local of the enclosing method that was built from the selected submodels only:
        `{k: m for k, m in <all>.items() if k in submodels}` / `{k: <all>[k] for k in submodels}`."""
        if isinstance(it, ast.Call) and isinstance(it.func, ast.Attribute) and it.func.attr in ('items', 'keys', 'values') and not it.args:
            it = it.func.value
        if not isinstance(it, ast.Name) or it.id not in sh.lf.locals:
            return False
        ds = [d for d in sh.cfg.nodes if d.kind == 'stmt' and isinstance(d.ast, (ast.Assign, ast.AnnAssign)) and it.id in names_bound_of(d)]
        if len(ds) != 1 or not isinstance(ds[0].ast.value, (ast.DictComp, ast.ListComp)) or len(ds[0].ast.value.generators) != 1:
            return False
        if any(isinstance(x, ast.Name) and x.id == it.id and isinstance(x.ctx, (ast.Store, ast.Del)) for d in sh.cfg.nodes if d.ast is not None and d is not ds[0]
               for x in ast.walk(d.ast)) or it.id in {x.value.id for x in ast.walk(sh.fi.node) if isinstance(x, ast.Subscript) and isinstance(x.ctx, (ast.Store, ast.Del)) and isinstance(x.value, ast.Name)}:
            return False
        g_ = ds[0].ast.value.generators[0]
        if text(g_.iter) == 'submodels':
            return True
        return over_all(g_.iter) and any(in_selection(c, keyvar_of(g_.target, g_.iter)) for c in g_.ifs)

    found = unfiltered = 0
    for n in ast.walk(g.node):
        if isinstance(n, (ast.For, ast.comprehension)) and restricted_local(n.iter):
            found += 1
            continue
        if isinstance(n, ast.For):
            if text(n.iter) == 'submodels':
                found += 1
            elif over_all(n.iter):
                kv = keyvar_of(n.target, n.iter)
                body = [s_ for s_ in n.body if not (isinstance(s_, ast.Expr) and isinstance(s_.value, ast.Constant))]
                filt = (len(body) == 1 and isinstance(body[0], ast.If) and not body[0].orelse and in_selection(body[0].test, kv)) or \
                    (body and isinstance(body[0], ast.If) and not body[0].orelse and len(body[0].body) == 1 and isinstance(body[0].body[0], ast.Continue)
                     and in_selection(body[0].test, kv, positive=False))
                found += 1
                unfiltered += 0 if filt else 1
        elif isinstance(n, ast.comprehension):
            if text(n.iter) == 'submodels':
                found += 1
            elif over_all(n.iter):
                kv = keyvar_of(n.target, n.iter)
                found += 1
                unfiltered += 0 if any(in_selection(c, kv) for c in n.ifs) else 1
    if not found:
        raise Unsupported(f'{gq}: no iteration over the submodels found')
    R.check(not unfiltered, gq, 'selected-only', 'exactly the selected submodels contribute check values',
            'get_check_values() does not restrict submodel entries to the selection', where=g.where)
    # the difference mapping must cover every key of the check-value mapping
    from rules.solver_common import value_roles
    cur, prev = value_roles(sh)
    conv, _ = sh.convergence_node()
    dcs = []
    for n in sh.cfg.nodes:
        a = n.ast
        if sh.in_loop(n) and n.kind == 'stmt' and isinstance(a, ast.Assign) and isinstance(a.value, ast.DictComp) and cur in text(a.value) and prev in text(a.value):
            dcs.append((n, a.value))
    for (n, dc) in dcs:
        it = dc.generators[0].iter
        full = text(it) in (cur, prev, f'{cur}.keys()', f'{prev}.keys()', f'{cur}.items()', f'{prev}.items()') and not dc.generators[0].ifs and len(dc.generators) == 1
        R.check(full, sh.q, 'diff-covers-all:' + text(it), 'the movement is computed for every entry of the check-value mapping (linker and each selected submodel)',
                f'`{text(n.ast)[:90]}` computes the movement over `{text(it)}`, not over every entry of `{cur}`: some check values (e.g. the linker\'s own) are never compared',
                where=sh.where(n))
    # and the test consumes the whole mapping
    conv_read = getattr(sh, 'conv_test_read', None)
    walked = list(ast.walk(conv.ast)) + (list(ast.walk(conv_read)) if conv_read is not None else [])
    consumed = any(text(x) in (f'{text(d[0].ast.targets[0])}.values()', f'{text(d[0].ast.targets[0])}.items()', text(d[0].ast.targets[0])) for d in dcs for x in walked)
    R.check(consumed or not dcs, sh.q, 'test-consumes-all', 'the convergence test consumes the whole difference mapping', 'the convergence test does not iterate over all differences', where=sh.where(conv))


def r4_stamping(R, sh: SolverShape) -> None:
    fs = sh.final_store('status')
    sval = fs.ast.value
    # submodel.status[t] = status after the loop, for name in submodels
    stamps = [s for s in sh.stores if s.series == 'status' and s.owner != 'self' and sh.loop.id in sh.dom[s.node.id] and not sh.in_loop(s.node)]
    if not R.require(sh.q, len(stamps), 'submodel.status[t] = status after the loop', fi=sh.fi, pred=pred_series_store('status')):
        return
    st = stamps[0]
    R.check(text(st.index) == 't' and text(st.value) == text(sval), sh.q, 'stamp-value:' + stmt_key(st.node.ast),
            'each selected submodel receives the same status as the linker',
            f'`{st.node.label()}` does not stamp the linker status `{text(sval)}` at t', where=sh.where(st.node))
    lp = [sh.cfg.nodes[i] for i in st.node.loops]
    ok = bool(lp) and text(lp[-1].ast.iter) == 'submodels'
    R.check(ok, sh.q, 'stamp-selection:' + (text(lp[-1].ast.iter) if lp else '<none>'), 'exactly the selected submodels are stamped',
            f'status stamping iterates `{text(lp[-1].ast.iter) if lp else "<no loop>"}`, not the selection', where=sh.where(st.node))
    if ok:
        # owner is looked up by the loop variable
        var = text(lp[-1].ast.target)
        vals = sh.lf.values_reaching(st.node.id, st.owner)
        good = len(vals) == 1 and vals[0][1] is not None and isinstance(vals[0][1], ast.Subscript) \
            and text(vals[0][1].value) in SUBMODEL_LOOKUPS and text(vals[0][1].slice) == var
        R.check(good, sh.q, 'stamp-owner', 'the stamped object is the selected submodel',
                f'`{st.owner}` is not `<submodels>[{var}]` at the stamp', where=sh.where(st.node))
    # stamped on every normal exit
    for (b, lab) in sh.loop_exit_targets():
        okp = must_pass(sh.cfg, b, sh.cfg.exit, [st.node.id]) and must_pass(sh.cfg, b, sh.cfg.raise_exit, [st.node.id]) \
            if lp else False
        # an empty selection skips the store node itself: require the loop header instead
        hdr = lp[-1].id if lp else None
        okp = hdr is not None and must_pass(sh.cfg, b, sh.cfg.exit, [hdr]) and must_pass(sh.cfg, b, sh.cfg.raise_exit, [hdr])
        R.check(okp, sh.q, f'stamp-on-exit:{lab}', f'submodels are stamped on every `{lab}` exit (before NonConvergenceError too)',
                f'a `{lab}` exit can leave without stamping the submodels', where=sh.where(st.node))
    # zeroing before the loop
    zeros = [s for s in sh.stores if s.series == 'iterations' and s.owner != 'self' and not sh.in_loop(s.node) and s.node.id in sh.dom[sh.loop.id] or
             (s.series == 'iterations' and s.owner != 'self' and not sh.in_loop(s.node) and sh.loop.id not in sh.dom[s.node.id])]
    if R.require(sh.q, len(zeros), 'submodel.iterations[t] = 0 before the loop', fi=sh.fi,
                 pred=lambda x: isinstance(x, ast.Assign) and is_const(x.value, 0) and isinstance(x.targets[0], ast.Subscript) and 'iterations' in text(x.targets[0].value)):
        z = zeros[0]
        zl = [sh.cfg.nodes[i] for i in z.node.loops]
        R.check(text(z.index) == 't' and is_const(z.value, 0) and not z.aug, sh.q, 'zero-value:' + stmt_key(z.node.ast),
                'iteration counters of the selection are reset to 0', f'`{z.node.label()}` is not `submodel.iterations[t] = 0`',
                where=sh.where(z.node))
        R.check(bool(zl) and text(zl[-1].ast.iter) == 'submodels', sh.q, 'zero-selection', 'reset applies to the selection',
                'iteration reset does not iterate the selection', where=sh.where(z.node))
        R.check(bool(zl) and zl[-1].id in sh.dom[sh.loop.id], sh.q, 'zero-before-loop', 'reset precedes the first iteration',
                'the iteration loop can start before the counters are reset', where=sh.where(z.node))


def r5_unknown_id(R, sh: SolverShape) -> None:
    ks = sh.raises('KeyError')
    if not R.require(sh.q, len(ks), 'raise KeyError for an unknown submodel id', fi=sh.fi, pred=pred_raise('KeyError')):
        return
    k = ks[0]
    # it sits in a handler of KeyError around the lookup
    par = {}
    for n in ast.walk(sh.fi.node):
        for c in ast.iter_child_nodes(n):
            par[id(c)] = n
    h = par.get(id(k.ast))
    ok = isinstance(h, ast.ExceptHandler) and h.type is not None and text(h.type) == 'KeyError' and h.name \
        and isinstance(k.ast.cause, ast.Name) and k.ast.cause.id == h.name
    R.check(ok, sh.q, 'unknown-id-handler', 'an unknown id surfaces as KeyError chained to the lookup failure',
            'the KeyError for an unknown submodel is not raised from an `except KeyError as e` handler with `from e`', where=sh.where(k))
    if ok:
        tr = par.get(id(h))
        body_ok = any(isinstance(x, ast.Subscript) and text(x.value) in SUBMODEL_LOOKUPS for s in tr.body for x in ast.walk(s))
        R.check(body_ok, sh.q, 'unknown-id-lookup', 'the guarded statement is the submodel lookup', 'the try body does not look up the submodel',
                where=sh.where(k))
    lp = [sh.cfg.nodes[i] for i in k.loops]
    R.check(bool(lp) and text(lp[-1].ast.iter) == 'submodels' and lp[-1].id in sh.dom[sh.loop.id], sh.q, 'unknown-id-before-loop',
            'every selected id is validated before the first iteration', 'the id validation does not dominate the iteration loop',
            where=sh.where(k))
    nb = sh.calls_self('solve_t_before')
    R.check(all(lp and lp[-1].id in sh.dom[b.id] for b in nb), sh.q, 'unknown-id-before-hook', 'ids are validated before solve_t_before',
            'solve_t_before can run before ids are validated', where=sh.where(k))


SPAN_SAFE_WRAPPERS = ('list', 'tuple')


def r6_constructor(R) -> None:
    fi = R.repo.func(QI)
    cfg = CFG(fi.node, fsic_hierarchy(R.repo))
    lf = LocalFlow(cfg, fi.params())
    R.saw_function(fi, cfg)
    # span comparison
    cmps = []
    for n in cfg.nodes:
        if n.kind != 'test':
            continue
        for x in ast.walk(n.ast):
            if isinstance(x, ast.Compare) and len(x.ops) == 1 and isinstance(x.ops[0], (ast.Eq, ast.NotEq)):
                sides = [x.left, x.comparators[0]]
                if all('span' in text(s) for s in sides) and not all(isinstance(s, ast.Call) and dotted(s.func) == 'len' for s in sides):
                    cmps.append((n, x))
            if isinstance(x, ast.Call) and dotted(x.func) in ('np.array_equal', 'numpy.array_equal') and all('span' in text(a) for a in x.args):
                cmps.append((n, x))
            if isinstance(x, ast.Call) and isinstance(x.func, ast.Attribute) and x.func.attr == 'equals' and 'span' in text(x.func.value):
                cmps.append((n, x))
    zipped = None
    if not cmps:
        # label-by-label comparison, possibly in a helper: all(x == y for x, y in zip(A.span, B.span)) - zip() stops at the
        # shorter span, so the lengths must have been compared too
        from rules.common import Fn as _Fn
        from fsa.gated import canon, leaves, lift_ifs
        f0 = _Fn(R, QI)
        se0 = f0.symexec()
        owners = {id(x.test): x for x in ast.walk(fi.node) if isinstance(x, (ast.If, ast.While))}
        for n in cfg.nodes:
            if n.kind != 'test':
                continue
            t2 = f0._inline_pure_calls(n.ast)
            own = owners.get(id(n.ast))
            if own is not None and id(own) in se0.before:
                try:
                    t2 = f0._inline_pure_calls(canon(se0.value(own, n.ast)))
                except (Unsupported, Unknown):
                    pass
            for x in ast.walk(t2):
                if is_call(x, 'all') and len(x.args) == 1 and isinstance(x.args[0], (ast.GeneratorExp, ast.ListComp)) and len(x.args[0].generators) == 1 \
                        and is_call(x.args[0].generators[0].iter, 'zip') and len(x.args[0].generators[0].iter.args) == 2 \
                        and all('span' in text(a) for a in x.args[0].generators[0].iter.args):
                    zipped = (n, t2, x)
        if zipped is not None:
            tn, t2, allc = zipped
            a_, b_ = (text(a) for a in allc.args[0].generators[0].iter.args)
            gen = allc.args[0]
            tg = gen.generators[0].target
            pair = [text(e) for e in tg.elts] if isinstance(tg, ast.Tuple) and len(tg.elts) == 2 else None
            eq_ok = pair is not None and any(isinstance(y, ast.Compare) and len(y.ops) == 1 and isinstance(y.ops[0], ast.Eq) and
                                             sorted([text(y.left), text(y.comparators[0])]) == sorted(pair) for y in ast.walk(gen.elt))
            R.check(eq_ok, QI, 'span-compare-labels', 'spans are compared label by label', f'`{text(allc)[:70]}` does not compare the paired labels for equality',
                    where=f'{fi.module.relpath}:{tn.lineno}')
            guarded = False
            for (facts, leaf) in leaves(canon(lift_ifs(canon(t2)))):
                if any(x is not None and ast.dump(x) == ast.dump(allc) for x in ast.walk(leaf)) or text(allc) in text(leaf):
                    ft = [(text(a0), tr) for (a0, tr) in facts]
                    lens = {f'len({a_}) == len({b_})', f'len({b_}) == len({a_})'}
                    nlens = {f'len({a_}) != len({b_})', f'len({b_}) != len({a_})'}
                    if any((t0 in lens and tr) or (t0 in nlens and not tr) for (t0, tr) in ft) or any(l_ in text(leaf) for l_ in lens):
                        guarded = True
            R.check(guarded, QI, 'span-compare-lengths', 'spans of different lengths never match',
                    f'`{text(allc)[:80]}` pairs the labels with zip(), which stops at the end of the shorter span, and the lengths are not compared: a span that is a leading '
                    f'part of another (or an empty one) is accepted as matching - submodels with differing spans are not rejected', where=f'{fi.module.relpath}:{tn.lineno}', decided=True)
            R.check(a_ != b_, QI, 'span-compare-operands', 'two different submodels are compared', f'`{text(allc)[:60]}` compares a span with itself',
                    where=f'{fi.module.relpath}:{tn.lineno}')
            differ_edge = 'T' if isinstance(t2, ast.UnaryOp) and isinstance(t2.op, ast.Not) else 'F'
            c = None
    if zipped is None and not R.expect(QI, len(cmps), 1, 'comparison of a submodel span with the base span'):
        return
    if zipped is None:
        tn, c = cmps[0]
    if zipped is not None:
        pass
    elif isinstance(c, ast.Compare):
        sides = [c.left, c.comparators[0]]

        def safe(s: ast.AST) -> bool:
            return isinstance(s, ast.Call) and dotted(s.func) in SPAN_SAFE_WRAPPERS and len(s.args) == 1 and text(s.args[0]).endswith('.span')

        raw = [s for s in sides if isinstance(s, ast.Attribute) and s.attr == 'span']
        if raw:
            R.violation(QI, 'span-compare-raw:' + text(c),
                        f'`{text(c)}` compares two span objects directly in a boolean context: NumPy arrays and pandas indexes '
                        f'compare element-wise (ValueError / wrong verdict for identical PeriodIndex spans)',
                        where=f'{fi.module.relpath}:{tn.lineno}')
        elif all(safe(s) for s in sides):
            R.ok(QI, 'spans are compared as lists/tuples (usable as a truth value for every span type)', detail=text(c))
        else:
            raise Unsupported(f'{QI}: span comparison `{text(c)}` not in the idiom table')
        differ_edge = 'T' if isinstance(c.ops[0], ast.NotEq) else 'F'
        # operands: one is the base, the other the comparator of the loop
        names = sorted(text(s.args[0] if isinstance(s, ast.Call) else s) for s in sides)
        R.check(len(set(names)) == 2, QI, 'span-compare-operands', 'two different submodels are compared', f'`{text(c)}` compares a span with itself',
                where=f'{fi.module.relpath}:{tn.lineno}')
    else:
        R.ok(QI, 'spans compared with a whole-sequence equality function', detail=text(c))
        differ_edge = 'F'
    if zipped is None and isinstance(tn.ast, ast.UnaryOp) and isinstance(tn.ast.op, ast.Not):
        differ_edge = 'T' if differ_edge == 'F' else 'F'
    rs = [n for n in cfg.nodes if isinstance(n.ast, ast.Raise) and raised_class(n.ast) == 'InitialisationError'
          and any(b == n.id and lab == differ_edge for (b, lab) in tn.succ)]
    R.check(len(rs) == 1, QI, 'span-mismatch-raises', 'differing spans raise InitialisationError',
            'the span mismatch branch does not raise InitialisationError', where=f'{fi.module.relpath}:{tn.lineno}')
    # every non-base submodel is compared: the test is in a loop over the remaining identifiers
    from rules.common import Fn
    f = Fn(R, QI)
    # what names the submodel mapping: the attribute lookups, and a parameter stored under 'submodels' unchanged
    lookups = set(SUBMODEL_LOOKUPS)
    for n in f.cfg.nodes:
        a_ = n.ast
        if n.kind == 'stmt' and isinstance(a_, ast.Assign) and len(a_.targets) == 1:
            ds = dict_slot(a_.targets[0])
            if ds and ds[0] == 'self' and is_const(ds[1], 'submodels') and isinstance(a_.value, ast.Name):
                # the local keeps naming the stored mapping as long as it is not rebound after the store
                later = [d for d in f.assigns_to(a_.value.id) if f.cfg.reaches(n.id, d.id)]
                if not later:
                    lookups.add(a_.value.id)
    lp = [cfg.nodes[i] for i in tn.loops]
    ok = False
    this_model = set()
    if lp and isinstance(lp[-1].ast.iter, ast.Name):
        itn = lp[-1].ast.iter.id
        vals = lf.values_reaching(lp[-1].id, itn)
        for (s, v) in vals:
            if v is not None and isinstance(v, ast.Call) and dotted(v.func) == 'iter' and v.args:
                a0 = v.args[0]
                if text(a0) in lookups:
                    ok, this_model = True, {f'{lk}[{text(lp[-1].ast.target)}]' for lk in lookups}
                elif isinstance(a0, ast.Call) and isinstance(a0.func, ast.Attribute) and not a0.args and text(a0.func.value) in lookups:
                    tg_ = lp[-1].ast.target
                    if a0.func.attr == 'items' and isinstance(tg_, ast.Tuple) and len(tg_.elts) == 2:
                        ok, this_model = True, {text(tg_.elts[1])}
                    elif a0.func.attr == 'values' and isinstance(tg_, ast.Name):
                        ok, this_model = True, {tg_.id}
    R.check(ok, QI, 'span-compare-all', 'every submodel after the first is compared with the first',
            'the span comparison does not iterate over all remaining submodels', where=f'{fi.module.relpath}:{tn.lineno}')
    # lags / leads: what is stored as _LAGS / _LEADS is folded with max over the submodels' LAGS / LEADS
    for attr, key in (('LAGS', '_LAGS'), ('LEADS', '_LEADS')):
        st = [n for n in f.cfg.nodes if n.kind == 'stmt' and isinstance(n.ast, ast.Assign) and len(n.ast.targets) == 1 and dict_slot(n.ast.targets[0]) is not None
              and dict_slot(n.ast.targets[0])[0] == 'self' and is_const(dict_slot(n.ast.targets[0])[1], key)]
        if not R.require(QI, len(st), f"self.__dict__['{key}'] = <longest {attr.lower()}>", fi=fi, pred=lambda x, key=key: isinstance(x, ast.Constant) and x.value == key):
            continue
        src = st[0].ast.value
        if not isinstance(src, ast.Name):
            raise Unsupported(f'{QI}: `{key}` receives `{text(src)[:40]}`, not a local')
        nm = src.id
        folds, inits = [], []
        for d in f.vdefs(nm):
            (folds if (lp and lp[-1].id in d.node.loops) else inits).append(d)
        if not R.expect(QI, len(folds), 1, f'`{nm} = max({nm}, <submodel>.{attr})` in the loop'):
            continue
        d = folds[0]
        v = d.value
        ok = isinstance(v, ast.Call) and dotted(v.func) == 'max' and len(v.args) == 2 and not v.keywords \
            and any(text(x) == nm for x in v.args) and any(isinstance(x, ast.Attribute) and x.attr == attr for x in v.args)
        if ok:
            other = [x for x in v.args if text(x) != nm][0]
            # the submodel read is the one of this iteration
            owner = f.etext(d.node.id, other.value, stop=tuple(x.id for x in ast.walk(lp[-1].ast.target) if isinstance(x, ast.Name)))
            ok = owner in this_model or any(owner == f'{lk}[{text(lp[-1].ast.target)}]' for lk in lookups)
        R.check(ok, QI, f'fold:{attr}:' + text(v)[:50], f'linker {attr} = maximum over submodels', f'`{nm} = {text(v)[:60]}` is not `{nm} = max({nm}, <submodel of this iteration>.{attr})`',
                where=f.where(d.node))
        base_ok = any(isinstance(x.value, ast.Attribute) and x.value.attr == attr for x in inits)
        R.check(base_ok, QI, f'fold-init:{attr}', f'{attr} starts from the first submodel', f'`{nm}` is not initialised from the first submodel\'s {attr}', where=fi.where)
        R.ok(QI, f'{key} receives the folded value')
    for prop_, key in (('LAGS', '_LAGS'), ('LEADS', '_LEADS')):
        pf = R.repo.func(f'fsic.core.linkers.BaseLinker.{prop_}')
        rets = [n for n in ast.walk(pf.node) if isinstance(n, ast.Return)]
        ok = len(rets) == 1 and dict_slot(rets[0].value) is not None and is_const(dict_slot(rets[0].value)[1], key)
        R.check(ok, pf.qualname, f'property:{prop_}', f'{prop_} reads {key}', f'property {prop_} does not return `self.__dict__[\'{key}\']`', where=pf.where)


def r8_no_dead_option(R, sh: SolverShape) -> None:
    loaded = set()
    for n in ast.walk(sh.fi.node):
        if isinstance(n, ast.Name) and isinstance(n.ctx, ast.Load):
            loaded.add(n.id)
    for o in OPTIONS:
        if o in loaded:
            R.ok(sh.q, f'option `{o}` is read', trivial=True)
        else:
            R.violation(sh.q, f'dead-option:{o}',
                        f'option `{o}` is accepted by the signature and never read: it has no effect '
                        + ('(a single model seeds period t from t+offset and range-checks it)' if o == 'offset' else ''),
                        where=sh.fi.where)


def r9_same_rejections_as_a_model(R, sh) -> None:
    """A linker around one model behaves as that model does: what BaseModel.solve_t() rejects up front, BaseLinker.solve_t()
    rejects too - contradictory iteration limits, a period that cannot accommodate the lags / leads (reads would wrap round
    to the other end of the span)."""
    from rules.common import Fn
    from rules.solver_common import FalsyLimit
    f = Fn(R, Q)
    try:
        t = sh.minmax_test()
        rs = [b for (b, lab) in t.succ if lab == 'T' and isinstance(sh.cfg.nodes[b].ast, ast.Raise) and 'ValueError' in text(sh.cfg.nodes[b].ast)]
        R.check(bool(rs), Q, 'linker-rejects-limits', 'min_iter > max_iter raises ValueError, as for a single model', 'the `min_iter > max_iter` test does not raise ValueError', where=sh.where(t))
    except FalsyLimit as e:
        R.violation(Q, 'limits-check-skipped-for-zero', str(e), where=sh.fi.where)
    except AnchorMissing:
        R.violation(Q, 'linker-accepts-contradictory-limits',
                    'BaseLinker.solve_t() has no `min_iter > max_iter` rejection: solve_t(t, min_iter=9, max_iter=3) runs 3 iterations and records F where the model alone raises '
                    'ValueError (only BaseLinker.solve() checks)', where=sh.fi.where, mismatch=True)
    # ... and what it does about non-finite values (errors=): the linker accepts the option and hands it to the submodels'
    # evaluation, but the pass loop itself must apply the policy too (E / S statuses, SolutionError, replace)
    from fsa.match import nonfinite_test
    nf = [n for n in f.cfg.nodes if n.kind == 'test' and n.ast is not None and any(nonfinite_test(x) is not None or is_call(x, 'np.isfinite', 'numpy.isfinite', 'np.isnan')
                                                                                  for x in ast.walk(n.ast))]
    if not nf:
        R.violation(Q, 'linker-no-errors-policy',
                    "BaseLinker.solve_t() takes `errors=` but never tests the check values for NaN / infinity: with G = [10, nan, 10] a model alone gives statuses '. E -' and SolutionError "
                    "(errors='raise') or '. S .' (errors='skip'); wrapped in a linker it iterates to max_iter, records 'F' and raises NonConvergenceError", where=sh.fi.where)
    else:
        R.check(True, Q, 'linker-errors-policy', 'the linker tests its check values for non-finite values', '', where=f.where(nf[0]))
    feas = [r_ for r_ in f.raises('IndexError') if any(('self.lags' in text(a_) or "['lags']" in text(a_) or 'self.LAGS' in text(a_)) for (a_, _tr, _t) in f.guard_atoms(r_.id))
            and any(('self.leads' in text(a_) or "['leads']" in text(a_) or 'self.LEADS' in text(a_)) for (a_, _tr, _t) in f.guard_atoms(r_.id))]
    if not feas:
        R.violation(Q, 'linker-serves-infeasible-period',
                    'BaseLinker.solve_t() does not check that period t can accommodate the lags and leads: for a submodel with Y[-1], linker.solve_t(0) returns True with the lag read '
                    'from the last period of the span (the model alone raises IndexError)', where=sh.fi.where, mismatch=True)
    else:
        work = sh.n_eval
        R.check(all(not f.cfg.reaches(work.id, r_.id) for r_ in feas), Q, 'linker-rejects-infeasible-period', 'a period that cannot accommodate the lags / leads is rejected before any work',
                'the lags / leads rejection can come after the evaluation call', where=f.where(feas[0]))


def run(R) -> None:
    R.explanation = (
        'C08: one CFG of BaseLinker.solve_t + evaluate_t + __init__: call order/dominance of the three per-iteration steps and '
        'forwarding of the selection; per-element evaluation and counter increment; the shared convergence matcher (same table '
        'as the single-model solver: all / |diff| / strict <), coverage of linker and selected-submodel check values; status '
        'stamping by reaching definitions; KeyError discipline; span-comparison idiom table; max-folds of LAGS/LEADS; definite '
        'assignment; dead-option detection; the C02 exit table on the linker. Does not decide numerical equality with the bare model.'
    )
    sh = SolverShape(R.repo, Q, eval_call='evaluate_t')
    R.saw_function(sh.fi, sh.cfg)
    R.rule('C08.R1', lambda: r1_iteration_shape(R, sh))
    R.rule('C08.R2', lambda: r2_one_pass_per_submodel(R))
    R.rule('C08.R3', lambda: r3_convergence(R, sh))
    R.rule('C08.R4', lambda: (r4_stamping(R, sh), c02.r6_exit_table(R, sh, linker=True)))
    R.rule('C08.R5', lambda: r5_unknown_id(R, sh))
    R.rule('C08.R6', lambda: r6_constructor(R))
    R.rule('C08.R7', lambda: c02.r7_definite_assignment(R, [sh]))
    R.rule('C08.R8', lambda: r8_no_dead_option(R, sh))
    R.rule('C08.R9', lambda: r9_same_rejections_as_a_model(R, sh))
