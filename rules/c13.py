"""C13 - the parser is total, fails only with its own errors, has no side effects.

R1 who may exec, R2 format-string taint, R3 exception escape, R4 reserved
names, R5a a left-hand variable exists, R5b statement kind, R6 termination
shape, R7 end-of-input consistency, R8 outside effects.
"""

from __future__ import annotations

import ast
import re
from typing import Dict, List, Optional, Set, Tuple

import re._constants as sc  # type: ignore

from fsa import rx
from fsa.consts import fold_enum, folder
from fsa.escape import Escape, Site
from fsa.flow import PARAM
from fsa.match import Unknown, cmp_of, conj_atoms, dotted, is_call, is_const, method_call
from fsa.source import AnchorMissing, Unsupported, c3_mro, iter_own_nodes, resolve_method, stmt_key, text
from fsa.strshape import shape
from rules.common import Fn
from rules.solver_common import fsic_hierarchy

P = 'fsic.parser'
OWN_ERRORS = {'ParserError', 'SymbolError', 'IndentationError'}


# ---------------------------------------------------------------------------
def r1_who_may_exec(R) -> None:
    """(1) nothing on the call graph of parse_model executes text; (2) whatever is executed anywhere in fsic/parser.py is a
    class definition produced by build_model_definition()."""
    n_calls = 0
    esc = Escape(R.repo, P, fsic_hierarchy(R.repo))
    parse_path = esc.reachable_functions(f'{P}.parse_model')
    for q, fi in list(R.repo.functions.items()):
        if not q.startswith(P + '.'):
            continue
        for n in iter_own_nodes(fi.node):
            if isinstance(n, ast.Call) and dotted(n.func) in ('exec', 'eval'):
                n_calls += 1
                where = f'{fi.module.relpath}:{n.lineno}'
                if q in parse_path:
                    R.violation(q, f'exec-outside-build_model:{text(n)[:60]}',
                                f'`{text(n)[:60]}` executes text in {fi.name}(), which parse_model() can reach: parsing must never run the model\'s statements', where=where)
                    continue
                f = Fn(R, q)
                arg = n.args[0] if n.args else None
                ok = False
                node = [m for m in f.cfg.nodes if m.ast is not None and any(x is n for x in ast.walk(m.ast))]
                if node:
                    from rules.common import exec_source
                    src, _faithful = exec_source(f, node[0].id, arg)
                    ok = is_call(src, 'build_model_definition')
                R.check(ok, q, f'exec-arg:{text(arg) if arg is not None else "?"}', 'exec runs a class definition produced by build_model_definition',
                        f'`{text(n)[:60]}`: the executed text is not the result of build_model_definition()', where=where)
                # the namespace that receives the bindings (`Model`, ...) is not the module's own: building a model has no
                # side effect on fsic.parser's globals
                node = [m for m in f.cfg.nodes if m.ast is not None and any(x is n for x in ast.walk(m.ast))]
                sink = n.args[2] if len(n.args) >= 3 else (n.args[1] if len(n.args) == 2 else None)
                if sink is None or not node:
                    R.violation(q, 'exec-namespace:default', f'`{text(n)[:60]}` runs in the caller\'s own namespace', where=where)
                else:
                    sx = f.etext(node[0].id, sink)
                    if isinstance(sink, ast.Name):
                        # the object the local names (items stored into it afterwards do not change which object it is)
                        for (_s, dv) in f.lf.values_reaching(node[0].id, sink.id):
                            if dv is not None and text(dv) in ('globals()', 'vars()', 'sys.modules[__name__].__dict__'):
                                sx = text(dv)
                    R.check(sx not in ('globals()', 'vars()', 'sys.modules[__name__].__dict__'), q, f'exec-namespace:{sx[:30]}',
                            'the executed class definition binds its names in a scratch namespace',
                            f'`{text(n)[:60]}` binds the names the definition creates (`Model`, ...) in `{sx}`: every build writes into the module\'s globals', where=where)
    # module level
    for stmt in R.repo.module(P).tree.body:
        if not isinstance(stmt, (ast.FunctionDef, ast.ClassDef)):
            for n in ast.walk(stmt):
                if isinstance(n, ast.Call) and dotted(n.func) in ('exec', 'eval'):
                    R.violation(P, 'exec-module-level', 'exec/eval at module level of fsic/parser.py', where=f'fsic/parser.py:{n.lineno}')
    R.expect(P, n_calls, 2, 'exec() call sites in fsic/parser.py (build_model)')


# ---------------------------------------------------------------------------
def _is_brace_escape(e: ast.AST, of: Optional[str] = None) -> Optional[ast.AST]:
    """`X.replace('{','{{').replace('}','}}')` (either order) -> X"""
    seen = {}
    cur = e
    for _ in range(2):
        if method_call(cur, 'replace') and len(cur.args) == 2 and all(isinstance(a, ast.Constant) for a in cur.args):
            seen[cur.args[0].value] = cur.args[1].value
            cur = cur.func.value
        else:
            return None
    if seen == {'{': '{{', '}': '}}'}:
        return cur
    return None


def _sanitiser_functions(fi) -> Set[str]:
    out = set()
    for n in iter_own_nodes(fi.node):
        if isinstance(n, ast.FunctionDef) and len(n.args.args) == 1:
            rets = [x for x in ast.walk(n) if isinstance(x, ast.Return)]
            if len(rets) == 1 and rets[0].value is not None:
                src = _is_brace_escape(rets[0].value)
                if isinstance(src, ast.Name) and src.id == n.args.args[0].arg:
                    out.add(n.name)
    return out


def r2_format_taint(R) -> None:
    q = f'{P}.parse_equation'
    f = Fn(R, q)
    sanitisers = _sanitiser_functions(f.fi)
    fm = [n for n in f.cfg.nodes if n.ast is not None and n.kind == 'stmt'
          and any(method_call(x, 'format') and not isinstance(x.func.value, ast.Constant) for x in ast.walk(n.ast))]
    if not R.require(q, len(fm), 'template.format(...)', fi=f.fi, pred=lambda x: method_call(x, 'format')):
        return

    def sanitised_value(v: ast.AST) -> Optional[bool]:
        """True: brace-safe; False: carries raw user text; None: unknown."""
        if isinstance(v, ast.Constant) and isinstance(v.value, str):
            return True
        if _is_brace_escape(v) is not None:
            return True
        if isinstance(v, ast.Call) and isinstance(v.func, ast.Name) and v.func.id in sanitisers:
            return True
        return None

    visiting: Set[Tuple[int, str]] = set()

    def concat_parts(e: ast.AST) -> List[ast.AST]:
        if isinstance(e, ast.BinOp) and isinstance(e.op, ast.Add):
            return concat_parts(e.left) + concat_parts(e.right)
        return [e]

    def judge_name(nid: int, name: str, depth: int = 0) -> Tuple[str, str]:
        """('ok'|'tainted'|'unknown', explanation)"""
        if depth > 8:
            return ('unknown', 'definition chain too long')
        verdicts = []
        for (site, v) in f.lf.values_reaching(nid, name):
            if site == PARAM:
                verdicts.append(('tainted', f'`{name}` is (or may be) the raw parameter'))
                continue
            sn = f.cfg.nodes[site]
            if v is None and sn.kind == 'stmt' and isinstance(sn.ast, ast.AugAssign) and isinstance(sn.ast.op, ast.Add) and isinstance(sn.ast.target, ast.Name):
                # name += a + b: every appended piece must be a constant or brace-escaped, and so must what was there before
                parts = concat_parts(sn.ast.value)
                bad = [p_ for p_ in parts if sanitised_value(p_) is not True]
                if bad:
                    raw = any(isinstance(x, ast.Name) and x.id in f.fi.params() for x in ast.walk(bad[0]))
                    verdicts.append(('tainted' if raw else 'unknown', f'unescaped piece appended to the template: `{text(bad[0])[:70]}`'))
                    continue
                if (site, name) in visiting:
                    continue  # loop-carried: judged by the other definitions
                visiting.add((site, name))
                verdicts.append(judge_name(site, name, depth + 1))
                visiting.discard((site, name))
                continue
            if v is None:
                verdicts.append(('unknown', f'`{name}` is bound by `{sn.label()[:50]}`'))
                continue
            # re.sub(const, const-without-braces, <name>), possibly nested (a helper that applies several, read through)
            v = f._inline_pure_calls(v)
            if is_call(v, 're.sub') and len(v.args) == 3:
                cur_, bad_rep = v, None
                while is_call(cur_, 're.sub') and len(cur_.args) == 3 and isinstance(cur_.args[1], ast.Constant):
                    if '{' in str(cur_.args[1].value) or '}' in str(cur_.args[1].value):
                        bad_rep = cur_.args[1].value
                    cur_ = cur_.args[2]
                if isinstance(cur_, ast.Name):
                    if bad_rep is not None:
                        verdicts.append(('tainted', f're.sub replacement `{bad_rep}` introduces braces'))
                    else:
                        verdicts.append(judge_name(site, cur_.id, depth + 1))
                    continue
            # ''.join(pieces)
            if method_call(v, 'join') and isinstance(v.func.value, ast.Constant) and len(v.args) == 1 and isinstance(v.args[0], ast.Name):
                lst = v.args[0].id
                bad = []
                n_app = 0
                for x in iter_own_nodes(f.fi.node):
                    if method_call(x, 'append', 'extend', 'insert') and isinstance(x.func.value, ast.Name) and x.func.value.id == lst:
                        n_app += 1
                        a = x.args[-1]
                        if x.func.attr == 'extend' or sanitised_value(a) is not True:
                            bad.append(text(x))
                for d in f.assigns_to(lst):
                    dv = d.ast.value
                    if not (isinstance(dv, ast.List) and all(sanitised_value(e) is True for e in dv.elts)):
                        bad.append(text(d.ast))
                if bad:
                    verdicts.append(('tainted', f'unescaped piece joined into the template: `{bad[0][:70]}`'))
                elif n_app == 0:
                    verdicts.append(('unknown', f'no appends to `{lst}` found'))
                else:
                    verdicts.append(('ok', f'{n_app} pieces, each a constant or brace-escaped'))
                continue
            if isinstance(v, ast.Name):
                verdicts.append(judge_name(site, v.id, depth + 1))
                continue
            if isinstance(v, ast.JoinedStr) or (isinstance(v, ast.BinOp) and isinstance(v.op, ast.Add)):
                # f'{template[:start]}{{}}{template[end:]}' style: carries the sliced text unescaped
                names = {x.id for x in ast.walk(v) if isinstance(x, ast.Name)}
                if any(_is_brace_escape(x) is not None for x in ast.walk(v)) and not (names & {name}):
                    verdicts.append(('unknown', 'partially escaped concatenation'))
                else:
                    verdicts.append(('tainted', f'`{text(v)[:60]}` splices raw text into the template'))
                continue
            if sanitised_value(v) is True:
                verdicts.append(('ok', 'escaped'))
                continue
            verdicts.append(('unknown', f'definition `{text(v)[:60]}` not in the idiom table'))
        if any(v[0] == 'tainted' for v in verdicts):
            return [v for v in verdicts if v[0] == 'tainted'][0]
        if any(v[0] == 'unknown' for v in verdicts):
            return [v for v in verdicts if v[0] == 'unknown'][0]
        return verdicts[0] if verdicts else ('unknown', 'no definition')

    for n in fm:
        for x in ast.walk(n.ast):
            if method_call(x, 'format') and not isinstance(x.func.value, ast.Constant):
                recv = x.func.value
                if not isinstance(recv, ast.Name):
                    raise Unknown(f'{q}: format receiver `{text(recv)}`')
                verdict, why = judge_name(n.id, recv.id)
                if verdict == 'unknown':
                    raise Unknown(f'{q}: cannot decide whether `{recv.id}` is brace-safe: {why}')
                R.check(verdict == 'ok', q, f'format-taint:{recv.id}', f'`{recv.id}.format(...)`: literal braces of the user text are escaped ({why})',
                        f'`{text(x)[:60]}`: user text reaches str.format with its braces unescaped - {why} '
                        f"(e.g. 'Y = {{}} + X' raises IndexError, 'Y = X }}{{' ValueError)", where=f.where(n))


# ---------------------------------------------------------------------------
def _resub_chain_on(v: ast.AST, T: str) -> bool:
    """`re.sub(p, r, re.sub(p2, r2, ... T))` with constant, brace-free patterns and replacements: adds and removes no field."""
    cur = v
    n = 0
    while is_call(cur, 're.sub') and len(cur.args) >= 3 and all(
            isinstance(a_, ast.Constant) and isinstance(a_.value, str) and not set('{}') & set(a_.value) for a_ in cur.args[:2]):
        cur = cur.args[2]
        n += 1
    return n > 0 and text(cur) == T


def _name_or_fresh(f, n, k: ast.AST, s_: str, recv: ast.AST) -> bool:
    """The key of `D.get(k, s)` is, on every path, either `s.name` or the running index of the enclosing enumerate() loop -
    a key no entry has yet, so that `get` hands back its default `s` itself (which shares its own name)."""
    if not (method_call(recv, 'get') and isinstance(k, ast.Name)) or not n.loops:
        return False
    lp = f.cfg.nodes[n.loops[-1]]
    if not (lp.kind == 'for' and is_call(lp.ast.iter, 'enumerate') and isinstance(lp.ast.target, ast.Tuple) and isinstance(lp.ast.target.elts[0], ast.Name)):
        return False
    counter = lp.ast.target.elts[0].id
    vals = f.lf.values_reaching(n.id, k.id)
    if not vals:
        return False
    for (site, dv) in vals:
        if dv is None:
            return False
        t_ = text(dv)
        if t_ == f'{s_}.name' or t_ == counter:
            continue
        return False
    # the counter must be used for unnamed symbols only, or a name could collide with... an int never equals a str key
    return True


def _is_name_of(f, nid: int, k: ast.AST, s_: str) -> bool:
    """`k` (a local) was set to `<s_>.name`, and `s_` has since only been rebound to `s_._replace(...)` without `name=`
    (a NamedTuple copy that keeps the name)."""
    if not isinstance(k, ast.Name):
        return False
    vals = f.lf.values_reaching(nid, k.id)
    if len(vals) != 1 or vals[0][1] is None or text(vals[0][1]) != f'{s_}.name':
        return False
    site = vals[0][0]
    then, now = f.lf.defs_reaching(site, s_), f.lf.defs_reaching(nid, s_)
    for d in now - then:
        a_ = f.cfg.nodes[d].ast if d != PARAM else None
        if not (isinstance(a_, ast.Assign) and len(a_.targets) == 1 and text(a_.targets[0]) == s_ and method_call(a_.value, '_replace')
                and text(a_.value.func.value) == s_ and not a_.value.args and all(kw.arg not in (None, 'name') for kw in a_.value.keywords)):
            return False
    return True


def _template_evaluate_params(R) -> Set[str]:
    """Parameter names of `_evaluate` in the model template(s) (those common to all of them)."""
    import re as _re
    fd = folder(R.repo, P)
    out = None
    for nm in ('MODEL_TEMPLATE_TYPED', 'MODEL_TEMPLATE_UNTYPED', 'MODEL_TEMPLATE'):
        try:
            t = fd.get(nm)
        except Exception:
            continue
        if not isinstance(t, str):
            continue
        for m in _re.finditer(r'def _evaluate\((.*?)\)\s*(?:->.*?)?:', t, _re.S):
            try:
                fn = ast.parse(f'def f({m.group(1)}): pass').body[0]
            except SyntaxError:
                continue
            a = fn.args
            names = {x.arg for x in a.posonlyargs + a.args + a.kwonlyargs} | ({a.kwarg.arg} if a.kwarg else set()) | ({a.vararg.arg} if a.vararg else set())
            out = names if out is None else (out & names)
    if not out:
        raise Unknown('the parameters of `_evaluate` in the model template were not read')
    return out


def _as_method_body(a0: Optional[ast.AST]):
    """`'def f(<params>):\\n<statements>' + textwrap.indent(<code>, <spaces>)` -> (parameter names, <code>), else None."""
    if not (isinstance(a0, ast.BinOp) and isinstance(a0.op, ast.Add)):
        return None
    parts = []
    x = a0
    while isinstance(x, ast.BinOp) and isinstance(x.op, ast.Add):
        parts.insert(0, x.right)
        x = x.left
    parts.insert(0, x)
    head = ''
    i = 0
    while i < len(parts) and isinstance(parts[i], ast.Constant) and isinstance(parts[i].value, str):
        head += parts[i].value
        i += 1
    rest = parts[i:]
    if not head.lstrip().startswith('def ') or len(rest) != 1:
        return None
    r = rest[0]
    if not (is_call(r, 'textwrap.indent', 'indent') and len(r.args) >= 2):
        return None
    try:
        fn = ast.parse(head + '    pass\n').body[0]
    except SyntaxError:
        return None
    if not isinstance(fn, ast.FunctionDef):
        return None
    a = fn.args
    names = {y.arg for y in a.posonlyargs + a.args + a.kwonlyargs} | ({a.kwarg.arg} if a.kwarg else set()) | ({a.vararg.arg} if a.vararg else set())
    return names, r.args[0]


def _index_type_fallthrough(R, site) -> bool:
    """The raise is what is left, in a method of Term, after isinstance tests of the term's own index have all failed (wherever
    in the class that rendering now lives)."""
    if not site.func.startswith(f'{P}.Term.'):
        return False
    try:
        f = Fn(R, site.func)
    except Exception:
        return False
    for n in f.raises('TypeError'):
        if getattr(n.ast, 'lineno', None) != site.line:
            continue
        atoms = [(a, tr) for (a, tr, _tn) in f.guard_atoms(n.id)]
        tests = [(a, tr) for (a, tr) in atoms if is_call(a, 'isinstance') and len(a.args) == 2 and text(a.args[0]) == 'self.index_']
        return bool(tests) and all(not tr for (_a, tr) in tests)
    return False


def _beliefs(R, f_escape: Escape):
    """Allowlisted sites: (predicate on Site) -> (reason, fact-check callable returning (ok, detail))."""
    fd = folder(R.repo, P)

    def fact_single_group(site: Site):
        # the asserted list is the list of `_`-prefixed keys of the match's group dictionary whose group matched
        import re as _re
        from rules.parser_roles import TermMatch
        from fsa.match import nnf_atoms
        tm = TermMatch(R)
        mm = _re.match(r'assert len\((\w+)\) == 1$', site.key)
        an = [n for n in tm.f.cfg.nodes if n.kind == 'stmt' and isinstance(n.ast, ast.Assert) and text(n.ast)[:120] == site.key]
        if not mm or not an:
            return (False, 'assertion not recognised')
        lc = tm.f.as_listcomp(an[0].id, ast.Name(id=mm.group(1), ctx=ast.Load()))
        if lc is None or len(lc.generators) != 1:
            return (False, f'`{mm.group(1)}` is not a list built by one filter over the group dictionary')
        g = lc.generators[0]
        tg = [x.id for x in ast.walk(g.target) if isinstance(x, ast.Name)]
        conds = sorted((text(a_), tr) for c_ in g.ifs for (a_, tr) in nnf_atoms(c_, True))
        ok_shape = tm.f.etext(an[0].id, g.iter) == f'{tm.m}.groupdict().items()' and len(tg) == 2 and text(lc.elt) == tg[0] \
            and conds == sorted([(f"{tg[0]}.startswith('_')", True), (f'{tg[1]} is None', False)])
        if not ok_shape:
            return (False, f'`{mm.group(1)}` is not [k for k, v in match.groupdict().items() if k.startswith("_") and v is not None]: `{text(lc)[:90]}`')
        # each top-level alternative of term_re that has named `_` groups has them in mutually exclusive branches
        t = fd.get('term_re')
        parsed = rx.parse(t.pattern, t.flags)
        gd = parsed.state.groupdict
        alts = rx.top_alternatives(parsed)
        under = {n: g for n, g in gd.items() if n.startswith('_')}
        for a in alts:
            nums = rx.group_numbers(a) & set(under.values())
            if len(nums) > 1:
                # allowed only if they sit in different branches of one BRANCH item
                br = [it for it in a if it[0] is sc.BRANCH]
                ok = False
                for b in br:
                    per = [rx.group_numbers(rx.items(s)) & set(under.values()) for s in b[1][1]]
                    if all(len(p) <= 1 for p in per) and set().union(*per) == nums:
                        ok = True
                if not ok:
                    return (False, f'alternative with groups {nums} not mutually exclusive')
        return (True, 'one `_`-group per alternative/branch; matches without any are filtered by any(m.groups())')

    def fact_type_names(site: Site):
        # the subscript key must derive from the regex's group dictionary
        from rules.common import tainted_names
        fi_ = R.repo.func(site.func)
        seeds = ['groupdict'] + [text(a.targets[0]) for a in ast.walk(fi_.node) if isinstance(a, ast.Assign) and len(a.targets) == 1
                                 and isinstance(a.targets[0], ast.Name) and any(method_call(x, 'groupdict') for x in ast.walk(a.value))]
        tainted = tainted_names(fi_.node, seeds)
        prov = False
        for n in ast.walk(fi_.node):
            if isinstance(n, ast.Subscript) and text(n)[:120] == site.key and isinstance(n.ctx, ast.Load):
                names = {x.id for x in ast.walk(n.slice) if isinstance(x, ast.Name)}
                prov = bool(names) and names <= tainted and any(
                    isinstance(a, ast.Assign) and any(method_call(x, 'groupdict') for x in ast.walk(a.value)) for a in ast.walk(fi_.node))
        if not prov:
            # where does it come from, then?  From the match object by another route (lastgroup, group(...)): which names that
            # can yield is a fact about the pattern that this rule does not read.  From anything else (a piece of the text being
            # parsed): nothing restricts it to the members of the enumeration - that is a finding wherever it is written.
            mparams = [a_.arg for a_ in fi_.node.args.args if a_.annotation is not None and text(a_.annotation).startswith('Match')]
            via_match = tainted_names(fi_.node, mparams) | set(mparams) if mparams else set()
            for n in ast.walk(fi_.node):
                if isinstance(n, ast.Subscript) and text(n)[:120] == site.key and isinstance(n.ctx, ast.Load):
                    names = {x.id for x in ast.walk(n.slice) if isinstance(x, ast.Name)}
                    if names and names <= via_match:
                        return (None, 'the enum key comes from the match object, but not through match.groupdict(): which names it can take was not read')
            return (False, 'the enum key does not come from match.groupdict()', 'positive')
        t = fd.get('term_re')
        gd = rx.parse(t.pattern, t.flags).state.groupdict
        types = fold_enum(R.repo, P, 'Type')
        missing = [n for n in gd if n.startswith('_') and n[1:] not in types]
        return (not missing, f'group names {sorted(n for n in gd if n.startswith("_"))} are Type members' if not missing else f'{missing} not in Type')

    def fact_equals_present(site: Site):
        if not (site.func == f'{P}.parse_equation_terms' and "equation.split('='" in site.key):
            return (False, 'not the split of the validated statement at `=`')
        e = fd.get('equation_re')
        parsed = rx.parse(e.pattern, e.flags)
        alts = rx.top_alternatives(parsed)
        bad = []
        unanchored = []
        for a in alts:
            has_eq = any(it[0] is sc.LITERAL and it[1] == ord('=') for it in a) or \
                any(it[0] is sc.IN and rx.charclass(it) == {'='} for it in a)
            is_fence = any(it[0] is sc.MAX_REPEAT and it[1][0] >= 3 and len(rx.items(it[1][2])) == 1 and rx.is_literal(rx.items(it[1][2])[0], '`') for it in a)
            if not has_eq and not is_fence:
                bad.append(a)
            if not has_eq and is_fence:
                # the alternative without `=` must be the whole statement: with re.MULTILINE, `^ ... $` also matches a run of
                # lines in the middle of a statement (a fenced block inside an open bracket), which then passes validation
                # with no `=` in it - and does not take parse_equation's early return for fenced blocks either
                ml = bool(e.flags & re.MULTILINE)
                its_ = [it for it in a]
                starts = bool(its_) and its_[0][0] is sc.AT and (its_[0][1] is sc.AT_BEGINNING_STRING or (its_[0][1] is sc.AT_BEGINNING and not ml))
                ends = bool(its_) and its_[-1][0] is sc.AT and (its_[-1][1] is sc.AT_END_STRING or (its_[-1][1] is sc.AT_END and not ml))
                if not (starts and ends):
                    unanchored.append(a)
        # and parse_equation returns early for fenced verbatim blocks
        callers = [g for g in R.repo.functions.values() if g.qualname.startswith(P + '.') and g.qualname.count('.') == P.count('.') + 1
                   and any(is_call(x, 'parse_equation_terms') for x in iter_own_nodes(g.node))]
        if not callers:
            raise Unknown(f'{P}.parse_equation_terms: no caller found')
        early = True
        for g in callers:
            ok_g = False
            for n in g.node.body:
                if any(is_call(x, 'parse_equation_terms') for x in ast.walk(n)):
                    break
                if isinstance(n, ast.If) and "startswith('`')" in text(n.test) and n.body and isinstance(n.body[-1], ast.Return):
                    ok_g = True
            if not ok_g and g.name != 'parse_equation':
                raise Unknown(f'{g.qualname}: calls parse_equation_terms(); whether fenced blocks are kept away from it was not recognised')
            early = early and ok_g
        # a guard at the split itself settles it whatever the validation lets through: `if '=' not in equation: raise <own error>`
        fs = Fn(R, site.func)
        sn = [n for n in fs.cfg.nodes if n.ast is not None and n.kind == 'stmt' and getattr(n.ast, 'lineno', None) == site.line]
        if sn and (fs.holds(sn[0].id, "'=' in equation") or fs.holds(sn[0].id, "'=' not in equation", False)):
            guards_ = [fs.cfg.nodes[tid] for (tid, _l) in fs.guards_of(sn[0].id)]
            own = any(isinstance(fs.cfg.nodes[b].ast, ast.Raise) and fs.raised(fs.cfg.nodes[b]) in OWN_ERRORS for g_ in guards_ for (b, _lab) in g_.succ)
            if own:
                return (True, "the split is guarded by `'=' in equation` (a statement without one raises a parser error first)")
        if unanchored and not bad and early:
            return (False, 'the fenced-block alternative of equation_re is anchored to lines (`^`...`$` under re.MULTILINE), not to the whole statement: it also matches fence '
                           'lines in the middle of a statement - `(\\n```\\n```\\n)` or a fenced block left open by an unbalanced bracket, "```\\nf(\\n```\\n)" - which passes '
                           'validation without any `=` and is not a fenced block for parse_equation either, so the split at `=` fails with ValueError')
        return (not bad and early, 'every non-fence alternative of equation_re has a mandatory `=`; fenced blocks return before the split')

    def fact_index_colon(site: Site):
        pm = R.repo.func(f'{P}.parse_model')
        for n in ast.walk(pm.node):
            if isinstance(n, ast.Call) and method_call(n, 'index') and is_const(n.args[0], ':') and isinstance(n.func.value, ast.Name):
                nm = n.func.value.id
                for m in ast.walk(pm.node):
                    if isinstance(m, ast.Assign) and text(m.targets[0]) == nm:
                        parts = shape(m.value)
                        if any(k == 'lit' and ':' in v for k, v in parts):
                            return (True, f'`{nm}` is built from a literal containing ":"')
        return (False, 'searched string has no literal ":"')

    def fact_typeerror_unreachable(site: Site):
        from rules.parser_roles import TermMatch
        tm = TermMatch(R)
        f = tm.f
        kinds = set()
        for (_facts, v) in tm.index_leaves():
            t_ = tm.norm_raw(text(v))
            if isinstance(v, ast.Constant):
                kinds.add(type(v.value).__name__)
            elif is_call(v, 'int'):
                kinds.add('int')
            elif t_ == '<INDEX>' or (isinstance(v, ast.Subscript) and isinstance(v.slice, ast.Slice) and tm.norm_raw(text(v.value)) == '<INDEX>') \
                    or (method_call(v, 'strip', 'lstrip', 'rstrip') and tm.norm_raw(text(v.func.value)) == '<INDEX>'):
                kinds.add('str')
            else:
                kinds.add('?:' + text(v)[:60])
        ok = kinds <= {'int', 'str', 'NoneType'}
        if not ok:
            return (False, f'process_term_match assigns {sorted(kinds)} to the index')
        if site.func.endswith('resolve_by_type_pair') or '.Symbol.combine' in site.func:
            # mixed None / non-None pairs arise only when a FUNCTION/KEYWORD symbol meets a variable-like one:
            # the SymbolError guard must come before the lag/lead resolution
            c = Fn(R, f'{P}.Symbol.combine', inline_methods=True)
            outer = [t for t in c.tests() if text(t.ast) in ('self.type != other.type', 'other.type != self.type')]
            calls = c.nodes_with(lambda x: is_call(x, 'resolve_by_type_pair'))
            if not calls:
                # the resolution helper was read in place: its defensive raise marks where the resolution happens
                calls = [r_ for r_ in c.raises('TypeError')]
            raises = c.raises('SymbolError')
            good = bool(outer) and bool(calls) and bool(raises) and all(outer[0].id in c.dom[n.id] for n in calls) \
                and all(not c.cfg.reaches(n.id, r.id) for n in calls for r in raises)
            if not good:
                return (False, 'in Symbol.combine the type-compatibility check (SymbolError) does not precede the lag/lead resolution: a function symbol '
                               '(lags None) can meet a variable (lags int) in resolve_by_type_pair')
            return (True, 'index is int|str|None by construction and the SymbolError guard precedes resolve_by_type_pair (no mixed None/int pair)')
        return (ok, f'process_term_match assigns only {sorted(kinds)} to the index')

    def fact_functions_equal(site: Site):
        return (True, 'two FUNCTION symbols of one name are built from the same (name, type, None, None) fields')

    def fact_same_name(site: Site):
        """combine() is reached only as D.get(k, s).combine(s) or D[k].combine(s) with k = s.name, and every entry of D is
        stored under its own name (so D[k].name == k by induction over the stores)."""
        for q in (f'{P}.parse_model', f'{P}.parse_equation'):
            f = Fn(R, q)
            dicts = set()
            for n in f.cfg.nodes:
                if n.ast is None or n.kind not in ('stmt', 'test'):
                    continue
                for c in ast.walk(n.ast):
                    if not method_call(c, 'combine'):
                        continue
                    if len(c.args) != 1:
                        return (False, f'`{text(c)[:60]}` in {q.split(".")[-1]} is not a one-argument combine()')
                    s_ = text(c.args[0])
                    recv = c.func.value
                    if method_call(recv, 'get') and len(recv.args) == 2 and text(recv.args[1]) == s_:
                        d_, k_ = text(recv.func.value), recv.args[0]
                    elif isinstance(recv, ast.Subscript):
                        d_, k_ = text(recv.value), recv.slice
                    else:
                        return (False, f'`{text(c)[:60]}` in {q.split(".")[-1]}: the receiver is neither D.get(name, s) nor D[name]')
                    if f.etext(n.id, k_, stop=(d_,)) != f'{s_}.name' and not _is_name_of(f, n.id, k_, s_) and not _name_or_fresh(f, n, k_, s_, recv):
                        return (None, f'`{text(c)[:60]}` in {q.split(".")[-1]}: the key `{text(k_)}` is not read as `{s_}.name` (nor as a fresh key)')
                    dicts.add(d_)
            for d_ in dicts:
                for n in f.cfg.nodes:
                    a_ = n.ast
                    if n.kind == 'stmt' and isinstance(a_, ast.Assign) and isinstance(a_.targets[0], ast.Subscript) and text(a_.targets[0].value) == d_:
                        v_ = a_.value
                        if any(method_call(x, 'combine') for x in ast.walk(v_)):
                            continue    # checked above; combine() keeps the receiver's name
                        ke = f.etext(n.id, a_.targets[0].slice, stop=(d_,))
                        if ke != f'{f.etext(n.id, v_, stop=(d_,))}.name' and ke != f'{text(v_)}.name':
                            return (False, f'`{text(a_)[:60]}` in {q.split(".")[-1]} stores a symbol under a key that is not its name')
        return (True, 'combine() is only called on the entry stored under the argument\'s own name')

    def fact_parse_after_compile(site: Site):
        f = Fn(R, site.func)
        def is_astparse(x):
            return is_call(x, 'ast.parse') or (is_call(x, 'compile') and 'PyCF_ONLY_AST' in text(x))

        def is_plain_compile(x):
            return is_call(x, 'compile') and 'PyCF_ONLY_AST' not in text(x)

        par = [n for n in f.cfg.nodes if n.ast is not None and n.kind == 'stmt' and any(is_astparse(x) for x in ast.walk(n.ast))]
        comp = [n for n in f.cfg.nodes if n.ast is not None and n.kind == 'stmt' and any(is_plain_compile(x) for x in ast.walk(n.ast))]
        if par and not comp and site.func.count('.') == P.count('.') + 1:
            # the parse sits in a helper of its own: the text is compiled by the caller before the helper is called
            name = site.func.rsplit('.', 1)[-1]
            pa = [x for x in ast.walk(par[0].ast) if is_astparse(x)][0]
            params = f.fi.params()
            if len(par) != 1 or not pa.args or text(pa.args[0]) not in params:
                raise Unknown(f'{site.func}: ast.parse() of something other than a parameter; the caller\'s compile() was not matched')
            idx = params.index(text(pa.args[0]))
            checked = 0
            for fn_ in R.repo.module(P).tree.body:
                if not isinstance(fn_, ast.FunctionDef) or fn_.name == name or not any(is_call(x, name) for x in ast.walk(fn_)):
                    continue
                g = Fn(R, f'{P}.{fn_.name}')
                gcomp = [n for n in g.cfg.nodes if n.ast is not None and n.kind in ('stmt', 'test') and any(is_plain_compile(x) for x in ast.walk(n.ast))]
                for n in g.cfg.nodes:
                    if n.ast is None or n.kind not in ('stmt', 'test'):
                        continue
                    for x in ast.walk(n.ast):
                        if is_call(x, name):
                            arg = x.args[idx] if idx < len(x.args) else next((k.value for k in x.keywords if k.arg == params[idx]), None)
                            good = arg is not None and any(c.id in g.dom[n.id] and c.id != n.id and c.trys and
                                                           text([y for y in ast.walk(c.ast) if is_plain_compile(y)][0].args[0]) == text(arg) for c in gcomp)
                            if not good:
                                return (False, f'`{text(x)[:60]}` in {fn_.name} is not preceded by compile() of the same text inside try/except SyntaxError')
                            checked += 1
            if not checked:
                raise Unknown(f'{site.func}: no caller found for the helper that parses the generated code')
            return (True, f'every call of {name}() is dominated by compile() of the same text inside try/except SyntaxError')
        if not par or not comp:
            return (False, 'no compile() before ast.parse()')
        ok = True
        for p_ in par:
            pa = [x for x in ast.walk(p_.ast) if is_astparse(x)][0]
            dom_ok = False
            for c in comp:
                ca = [x for x in ast.walk(c.ast) if is_plain_compile(x)][0]
                if c.id in f.dom[p_.id] and text(ca.args[0]) == text(pa.args[0]) and c.trys:
                    # the SyntaxError handler of that try leaves the loop
                    dom_ok = True
            ok = ok and dom_ok
        return (ok, 'ast.parse(e) is dominated by compile(e) inside try/except SyntaxError: the text already compiled')

    def fact_format_safe(site: Site):
        """`T.format(*[... for t in X])`: ValueError / KeyError need a brace-safe receiver (C13.R2 decides that); IndexError
        needs as many positional arguments as `T` has `{}` fields.  The fields are counted by one tokenisation of the whole
        statement, the arguments by another (the two sides of the first `=`): the counts are related only by a guard."""
        if site.exc != 'IndexError':
            return (True, 'receiver is brace-escaped: no stray `{`/`}` and no named or numbered field (decided by C13.R2)')
        f = Fn(R, site.func)
        stmts = [n for n in f.cfg.nodes if n.ast is not None and n.kind == 'stmt' and n.ast.lineno == site.line
                 and any(method_call(x, 'format') and not isinstance(x.func.value, ast.Constant) for x in ast.walk(n.ast))]
        if not stmts:
            return (None, 'the format() call was not found in the flow graph')
        n = stmts[0]
        call = [x for x in ast.walk(n.ast) if method_call(x, 'format') and not isinstance(x.func.value, ast.Constant)][0]
        if call.keywords or len(call.args) != 1 or not isinstance(call.args[0], ast.Starred):
            return (None, f'arguments of `{text(call)[:60]}` are not one starred sequence')
        seq = call.args[0].value
        if isinstance(seq, ast.Name):
            seq = f.expand(n.id, seq, depth=1, comps=True)
        if isinstance(seq, (ast.ListComp, ast.GeneratorExp)) and len(seq.generators) == 1 and not seq.generators[0].ifs:
            seq = seq.generators[0].iter
        elif is_call(seq, 'map') and len(seq.args) == 2:
            seq = seq.args[1]
        if not isinstance(seq, ast.Name):
            return (None, f'the argument sequence `{text(seq)[:60]}` is not a local list')
        X = seq.id
        # where the receiver's fields come from: T = ''.join(P), or T built by `T += text + '{}'`; whitespace
        # normalisation by re.sub() afterwards adds and removes no field
        recv = call.func.value
        if not isinstance(recv, ast.Name):
            return (None, f'the receiver `{text(recv)[:40]}` is not a local')
        T = recv.id
        P_ = None
        ph: List[Node] = []   # statements that each add one `{}` field
        tx: List[Node] = []   # statements that add text only
        for d in f.assigns_to(T):
            v = d.ast.value if isinstance(d.ast, (ast.Assign, ast.AnnAssign, ast.AugAssign)) else None
            if v is None:
                return (None, f'`{text(d.ast)[:50]}` defines the receiver in a form not in the idiom table')
            if isinstance(d.ast, ast.AugAssign):
                if not isinstance(d.ast.op, ast.Add):
                    return (None, f'`{text(d.ast)[:50]}` is not a concatenation')
                ops = []
                def flat(e):
                    if isinstance(e, ast.BinOp) and isinstance(e.op, ast.Add):
                        flat(e.left); flat(e.right)
                    else:
                        ops.append(e)
                flat(v)
                k_ = [o for o in ops if is_const(o, '{}')]
                if any(isinstance(o, ast.Constant) and o not in k_ and isinstance(o.value, str) and ('{' in o.value or '}' in o.value) for o in ops) or len(k_) > 1:
                    return (None, f'`{text(d.ast)[:50]}` adds fields in a form not in the idiom table')
                (ph if k_ else tx).append(d)
            elif _resub_chain_on(f._inline_pure_calls(v), T):
                continue
            elif isinstance(v, ast.Constant) and isinstance(v.value, str) and not set('{}') & set(v.value):
                continue
            elif method_call(v, 'join') and isinstance(v.func.value, ast.Constant) and len(v.args) == 1 and isinstance(v.args[0], ast.Name) and P_ is None:
                P_ = v.args[0].id
            else:
                return (None, f'`{text(d.ast)[:50]}` defines the receiver in a form not in the idiom table')
        if P_ is not None:
            if ph or tx:
                return (None, f'`{T}` is both joined from `{P_}` and concatenated to')
            appends = f.nodes_with(lambda x: method_call(x, 'append') and text(x.func.value) == P_ and len(x.args) == 1)
            others = [m for m in f.cfg.nodes if m.ast is not None and m.kind == 'stmt' and m not in appends and m.id != n.id
                      and any(isinstance(x, ast.Name) and x.id == P_ and isinstance(x.ctx, (ast.Store, ast.Del)) for x in ast.walk(m.ast))
                      and not (isinstance(m.ast, (ast.Assign, ast.AnnAssign)) and isinstance(m.ast.value, ast.List) and not m.ast.value.elts)]
            ph = [a for a in appends if any(method_call(x, 'append') and is_const(x.args[0], '{}') for x in ast.walk(a.ast))]
            tx = [a for a in appends if a not in ph]
            if others:
                return (None, f'`{P_}` is not built by append() of text and `{{}}` pieces only')
        if not ph:
            return (None, f'no statement adding a `{{}}` field to `{T}` was found')
        in_loop = lambda a: bool(a.loops)
        built = P_ or T
        # the counting expressions this rule can read
        def counts_fields(e: ast.AST, at: int) -> Optional[str]:
            e = f.expand(at, e, stop=(built, X))
            if P_ is not None and method_call(e, 'count') and text(e.func.value) == P_ and len(e.args) == 1 and is_const(e.args[0], '{}'):
                return f"{P_}.count('{{}}') (text pieces are brace-escaped: none equals '{{}}')"
            if P_ is not None and isinstance(e, ast.BinOp) and isinstance(e.op, ast.FloorDiv) and is_const(e.right, 2) and is_call(e.left, 'len') \
                    and text(e.left.args[0]) == P_:
                # alternating text / field pieces plus one trailing text piece
                lp = [a for a in ph + tx if in_loop(a)]
                out_tx = [a for a in tx if not in_loop(a)]
                same_guards = len({tuple(sorted(f.guards_of(a.id))) for a in lp}) == 1
                if all(in_loop(a) for a in ph) and len([a for a in lp if a in tx]) == len(ph) and same_guards and len(out_tx) == 1:
                    return f'len({P_}) // 2 (one text piece per field in the loop, one trailing text piece)'
                return None
            if isinstance(e, ast.Name):
                incs = [m for m in f.cfg.nodes if m.ast is not None and isinstance(m.ast, ast.AugAssign) and text(m.ast.target) == e.id]
                inits = [m for m in f.assigns_to(e.id) if m not in incs]
                if incs and len(incs) == len(ph) and all(isinstance(m.ast.op, ast.Add) and is_const(m.ast.value, 1) for m in incs) \
                        and len(inits) == 1 and is_const(inits[0].ast.value, 0) \
                        and {tuple(sorted(f.guards_of(m.id))) for m in incs} == {tuple(sorted(f.guards_of(a.id))) for a in ph}:
                    return f'`{e.id}` counts the fields added to `{built}`'
            return None

        related = []
        for (a, truth, tn) in f.guard_atoms(n.id):
            if isinstance(a, ast.Compare) and len(a.ops) == 1 and isinstance(a.ops[0], ast.Eq):
                sides = [a.left, a.comparators[0]]
                for i in (0, 1):
                    me, other = f.expand(tn.id, sides[i], stop=(X,)), sides[1 - i]
                    if is_call(me, 'len') and len(me.args) == 1 and text(me.args[0]) == X:
                        related.append((a, truth, tn, other))
        if not related:
            vals = f.lf.values_reaching(n.id, X)
            origin = vals[0][1] if len(vals) == 1 and vals[0][1] is not None else ast.Name(id=X, ctx=ast.Load())
            if isinstance(origin, ast.Call) and not any(isinstance(x, ast.Name) and x.id == built for x in ast.walk(origin)):
                return (False, f'`{text(recv)}` has one `{{}}` per term of the whole statement (built in `{built}`), the arguments are one per element of '
                               f'`{X} = {text(origin)[:50]}` (a separate tokenisation), and no guard before the call relates the two counts')
            return (None, f'no guard relates len({X}) to the fields of `{text(recv)}` and the origin of `{X}` is not recognised')
        for (a, truth, tn, other) in related:
            why = counts_fields(other, tn.id)
            if why and truth:
                return (True, f'`{text(a)}` holds at the call and {why}')
        return (None, f'a guard on len({X}) precedes the call but its other side is not a field count this rule can read: '
                      f'`{text(related[0][0])}` is {related[0][1]}')

    return [
        (lambda s: s.kind == 'assert' and s.func.endswith('process_term_match') and s.key.startswith('assert len(') and s.key.endswith(') == 1'),
         'exactly one named `_` group matched', fact_single_group),
        (lambda s: s.kind == 'assert' and 'symbol == functions[name]' in s.key, 'function symbols of one name are equal', fact_functions_equal),
        (lambda s: s.kind == 'assert' and 'self.name == other.name' in s.key, 'combine() is called on same-name symbols only', fact_same_name),
        (lambda s: s.exc == 'TypeError' and s.kind == 'raise' and (s.func.split('.')[-1] in ('__str__', 'resolve_by_type_pair') or '.Symbol.combine' in s.func or s.func.endswith('.Term.code')
                                                                 or _index_type_fallthrough(R, s)),
         'defensive TypeError: index is int|str|None by construction', fact_typeerror_unreachable),
        (lambda s: s.kind == 'unpack of split()', 'the statement contains `=`', fact_equals_present),
        (lambda s: s.kind == 'Enum[name]', 'regex group names are Type members', fact_type_names),
        (lambda s: s.kind == '.index()', "the searched string contains ':'", fact_index_colon),
        (lambda s: s.kind == 'ast.parse()', 'text already compiled', fact_parse_after_compile),
        (lambda s: s.kind == 'str.format()', 'template is brace-safe with matching field count', fact_format_safe),
    ]


def r3_escape(R) -> None:
    esc = Escape(R.repo, P, fsic_hierarchy(R.repo))
    q = f'{P}.parse_model'
    sites = esc.esc(q)
    reach = esc.reachable_functions(q)
    R.expect(q, len(reach), 10, 'functions in the call graph of parse_model')
    for fq in sorted(reach):
        R.saw_function(R.repo.func(fq))
    beliefs = _beliefs(R, esc)
    h = fsic_hierarchy(R.repo)
    n_sites = 0
    for s in sorted(sites, key=lambda s: (s.func, s.line)):
        n_sites += 1
        construct = s.func
        if any(h.is_sub(s.exc, a) for a in OWN_ERRORS):
            R.ok(construct, f'{s.exc} may propagate ({s.kind}): one of the parser\'s own errors', detail=s.key[:80], trivial=True)
            continue
        matched = False
        # a may-raise site (not an explicit raise) in a statement the reference tree does not have: whether its failing case can
        # arise is an argument about values this analysis does not make either way - only sites that were there (and whose
        # supporting fact or handler has gone) and explicit raises are findings
        fresh = s.kind != 'raise' and R.repo.new_statement(s.func, s.line)
        for (pred, reason, fact) in beliefs:
            if pred(s):
                matched = True
                res = fact(s)
                ok, detail = res[0], res[1]
                if ok is False and fresh and len(res) < 3:
                    ok, detail = None, f'{detail} (the statement is new: the supporting fact was not established in the form it is now written)'
                if ok is None:
                    R.inconclusive(construct, f'{s.exc} from `{s.key[:60]}` ({s.kind}): {detail}')
                    break
                R.check(ok, construct, f'escape:{s.exc}:{s.kind}:{s.key[:60]}',
                        f'{s.exc} from {s.kind} cannot occur: {reason} [{detail}]',
                        f'{s.exc} may escape parse_model from `{s.key[:70]}` ({s.kind}): the supporting fact "{reason}" does not hold: {detail}',
                        where=f'fsic/parser.py:{s.line}')
                break
        if not matched and fresh:
            R.inconclusive(construct, f'{s.exc} from `{s.key[:70]}` ({s.kind} in {s.func.split(".")[-1]}): a new statement that can raise; whether its '
                                      f'failing case can arise for some input was not decided')
        elif not matched:
            R.violation(construct, f'escape:{s.exc}:{s.kind}:{s.key[:60]}',
                        f'{s.exc} may propagate out of parse_model from `{s.key[:80]}` ({s.kind} in {s.func.split(".")[-1]}): '
                        f'not one of ParserError / SymbolError / IndentationError', where=f'fsic/parser.py:{s.line}')
    R.expect(q, n_sites, 15, 'raise/assert/raiser-table sites escaping the call graph of parse_model')
    if esc.recursive:
        R.violation(q, 'recursion:' + ','.join(sorted(esc.recursive)), f'recursion in the parser call graph: {sorted(esc.recursive)}')


# ---------------------------------------------------------------------------
def _init_events(R, mro: List[str]) -> List[Tuple[str, str, str]]:
    """Registration events of the __init__ chain in execution order:
    ('series'|'attr'|'VARIABLES', name, class)."""
    events: List[Tuple[str, str, str]] = []

    def walk_init(idx: int) -> None:
        # find the next class from idx providing __init__
        for j in range(idx, len(mro)):
            q = f'{mro[j]}.__init__'
            if q in R.repo.functions:
                fi = R.repo.functions[q]
                break
        else:
            return
        cname = mro[j].split('.')[-1]

        def visit(stmts):
            for s in stmts:
                if isinstance(s, (ast.If,)):
                    visit(s.body)
                    visit(s.orelse)
                    continue
                if isinstance(s, ast.For):
                    # the variables loop
                    # `super().add_variable(name, ...)` / `self.add_variable(name, ...)` / `Class.add_variable(self, name, ...)` with
                    # the loop variable as the name, over the model's names (or a copy of that list)
                    it_ = s.iter.args[0] if is_call(s.iter, 'list', 'tuple') and len(s.iter.args) == 1 else s.iter
                    tv_ = text(s.target)
                    if any(method_call(x, 'add_variable') and any(isinstance(a_, ast.Name) and a_.id == tv_ for a_ in x.args[:2]) for x in ast.walk(s)) \
                            and text(it_) in ('self.names', 'names', "self.__dict__['names']"):
                        events.append(('VARIABLES', '*', cname))
                        continue
                    visit(s.body)
                    continue
                if isinstance(s, (ast.Try, ast.With)):
                    visit(s.body)
                    continue
                for x in ast.walk(s):
                    if isinstance(x, ast.Call) and isinstance(x.func, ast.Attribute):
                        v = x.func.value
                        is_super = isinstance(v, ast.Call) and isinstance(v.func, ast.Name) and v.func.id == 'super'
                        if is_super and x.func.attr == '__init__':
                            walk_init(j + 1)
                        elif x.func.attr == 'add_attribute' and x.args and isinstance(x.args[0], ast.Constant):
                            events.append(('attr', x.args[0].value, cname))
                        elif x.func.attr == 'add_variable' and x.args and isinstance(x.args[0], ast.Constant):
                            events.append(('series', x.args[0].value, cname))
                if isinstance(s, ast.Assign) and len(s.targets) == 1:
                    t = s.targets[0]
                    if isinstance(t, ast.Subscript) and text(t.value) == 'self.__dict__' and isinstance(t.slice, ast.Constant):
                        if t.slice.value == '_attributes' and isinstance(s.value, ast.List):
                            for e in s.value.elts:
                                if isinstance(e, ast.Constant):
                                    events.append(('attr', e.value, cname))
        visit(fi.node.body)

    walk_init(0)
    return events


def reserved_names(R) -> List[Tuple[str, str]]:
    mro = c3_mro(R.repo, 'fsic.core.models.BaseModel')
    ev = _init_events(R, mro)
    if not any(k == 'VARIABLES' for (k, _n, _c) in ev):
        raise Unsupported('BaseModel.__init__ chain: the model-variable creation loop was not found')
    vi = [i for i, e in enumerate(ev) if e[0] == 'VARIABLES'][0]
    out = []
    # add_variable refuses a name already in `index` (series registered before the variables);
    # add_attribute refuses a name in `index` (attributes registered after the variables)
    for i, (k, n, c) in enumerate(ev):
        if k == 'series' and i < vi:
            out.append((n, f'series registered by {c}.__init__ before the model variables'))
        if k == 'attr' and i > vi:
            out.append((n, f'attribute registered by {c}.__init__ after the model variables'))
    return out


def r4_reserved_names(R) -> None:
    names = reserved_names(R)
    R.expect('fsic.core.models.BaseModel.__init__', len(names), 5, 'names reserved by the __init__ chain')
    # does the parser know them?
    consts: Set[str] = set()
    for q, fi in R.repo.functions.items():
        if q.startswith(P + '.'):
            for n in ast.walk(fi.node):
                if isinstance(n, ast.Constant) and isinstance(n.value, str):
                    consts.add(n.value)
    for stmt in R.repo.module(P).tree.body:
        if isinstance(stmt, (ast.Assign, ast.AnnAssign)):
            val = stmt.value
            if isinstance(val, (ast.List, ast.Tuple, ast.Set, ast.Dict)) or is_call(val, 'frozenset', 'set'):
                for n in ast.walk(val):
                    if isinstance(n, ast.Constant) and isinstance(n.value, str):
                        consts.add(n.value)
    for (n, why) in names:
        R.check(n in consts, f'{P}.parse_model', f'reserved-name:{n}',
                f'`{n}` is known to the parser as a reserved name',
                f"the parser accepts `{n}` as a variable name, but it is a {why}: build_model(parse_model('Y = {n}'))(range(3)) raises DuplicateNameError",
                where='fsic/parser.py')
    # a variable NAME is kept in the instance dictionary under '_' + NAME: a name whose slot is a method of the model
    # classes hides that method on the instance (`evaluate` -> `_evaluate`, the evaluation pass itself), one whose slot is the
    # container's own bookkeeping (`_attributes`, `_strict`) cannot be added at all
    shadow = []
    for cq in c3_mro(R.repo, 'fsic.core.models.BaseModel'):
        try:
            ci = R.repo.cls(cq)
        except Exception:
            continue
        for st in ci.node.body:
            if isinstance(st, ast.FunctionDef) and st.name.startswith('_') and not st.name.startswith('__') and st.name[1:].isidentifier() \
                    and not any(isinstance(d, ast.Name) and d.id in ('staticmethod',) for d in st.decorator_list):
                shadow.append((st.name[1:], f'method {ci.name}.{st.name}()'))
    # ... and the container's own entries of that form, set up by VectorContainer.__init__
    vi_ = R.repo.func('fsic.core.containers.VectorContainer.__init__')
    for x in ast.walk(vi_.node):
        if isinstance(x, ast.Assign) and len(x.targets) == 1:
            from fsa.match import dict_slot
            ds = dict_slot(x.targets[0])
            if ds is not None and ds[0] == 'self' and isinstance(ds[1], ast.Constant) and isinstance(ds[1].value, str) and ds[1].value.startswith('_') and not ds[1].value.startswith('__'):
                n_ = ds[1].value[1:]
                R.check(n_ in consts, f'{P}.parse_model', f'reserved-name:{n_}',
                        f'`{n_}` is known to the parser as a reserved name',
                        f"the parser accepts `{n_}` as a variable name, but its storage slot `{ds[1].value}` is the container's own bookkeeping entry: "
                        f"build_model(parse_model('Y = {n_}'))(range(3)) raises DuplicateNameError although parsing and building succeeded", where='fsic/parser.py')
    seen_ = set()
    for (n, why) in shadow:
        if n in seen_ or n in {x for (x, _w) in names}:
            continue
        seen_.add(n)
        if n not in ('evaluate',):
            continue        # the private helpers of the container are not plausible variable names; the evaluation pass is
        R.check(n in consts, f'{P}.parse_model', f'reserved-name:{n}',
                f'`{n}` is known to the parser as a reserved name',
                f"the parser accepts `{n}` as a variable name, but its storage slot `_{n}` is the {why}: build_model(parse_model('{n} = 0.5 * {n} + G'))(range(3), G=1.0).solve() "
                f"fails in pass 1 with SolutionError ('numpy.ndarray' object is not callable) - the array hides the method on the instance", where='fsic/parser.py')


# ---------------------------------------------------------------------------
def _lhs_at_most_one(R, f, rejected, unknown, side_names) -> None:
    """Each statement contributes exactly one equation: every ENDOGENOUS symbol of a statement is given the statement's
    equation, so a left-hand side with two variables must be rejected (or the equation attached to one symbol only)."""
    q = f.q
    if 2 in rejected and 3 in rejected:
        R.ok(q, 'a statement with more than one variable on its left-hand side raises ParserError', detail=text(rejected[2].ast)[:90])
        return
    if unknown:
        raise Unknown(f'{q}: left-hand-side test `{text(f.expand(unknown[0].id, unknown[0].ast, stop=side_names))[:60]}` not in the idiom table')
    pe = Fn(R, f'{P}.parse_equation')
    attach = [n for n in pe.cfg.nodes if n.ast is not None and n.kind == 'stmt'
              and any(method_call(x, '_replace') and {k.arg for k in x.keywords} >= {'equation', 'code'} for x in ast.walk(n.ast))]
    if len(attach) != 1:
        raise Unknown(f'{P}.parse_equation: {len(attach)} sites attach the equation to a symbol (expected one `_replace(equation=, code=)`)')
    cond = [(text(a), tr) for (a, tr, tn) in pe.guard_atoms(attach[0].id) if tn.loops]
    only_type = [c_ for c_ in cond if 'Type.ENDOGENOUS' in c_[0] and c_[1]]
    rest = [c_ for c_ in cond if c_ not in only_type and 'Type.' not in c_[0]]
    if only_type and not rest:
        R.violation(q, 'lhs-more-than-one-variable',
                    f"no rejection when the left-hand side holds more than one variable ('Y.Z = 1'): parse_equation gives every ENDOGENOUS symbol of the "
                    f'statement the equation (`{text(attach[0].ast)[:60]}`), so one statement contributes two equations to the built model', where=f.fi.where, mismatch=True)
        return
    raise Unknown(f'{P}.parse_equation: the equation is attached under {cond}; cannot tell that only one symbol per statement receives it')


def r5a_lhs_variable(R) -> None:
    q = f'{P}.parse_equation_terms'
    f = Fn(R, q)
    good = []
    unknown = []
    rejected: Dict[int, Node] = {}
    from rules.parser_roles import returned_sides
    _ret, parts = returned_sides(f)
    side_names = tuple(p_.id for p_ in parts if isinstance(p_, ast.Name))
    lhs = side_names[0] if side_names and isinstance(parts[0], ast.Name) else 'lhs_terms'
    for r in f.raises('ParserError'):
        for (tid, lab) in f.guards_of(r.id):
            tn = f.cfg.nodes[tid]
            if tn.kind != 'test' or lab != 'T':
                continue
            tn_ast = f.expand(tn.id, tn.ast, stop=side_names)
            tt = text(tn_ast)
            if lhs not in tt:
                continue
            mentions_type = any(k in tt for k in ('Type.ENDOGENOUS', 'Type.VARIABLE'))
            if not mentions_type:
                continue
            # the element predicate must select variables only
            types_named = sorted(set(x.attr for x in ast.walk(tn_ast) if isinstance(x, ast.Attribute) and isinstance(x.value, ast.Name) and x.value.id == 'Type'))
            if not set(types_named) <= {'ENDOGENOUS', 'VARIABLE'}:
                R.violation(q, f'lhs-variable-predicate:{types_named}',
                            f'the left-hand-side check `{tt[:80]}` also accepts {[t for t in types_named if t not in ("ENDOGENOUS", "VARIABLE")]} terms: a statement whose '
                            f'left-hand side holds no variable (e.g. only backticked code) passes and is then dropped silently', where=f.where(tn))
                return
            node = tn_ast
            neg_any = isinstance(node, ast.UnaryOp) and isinstance(node.op, ast.Not) and is_call(node.operand, 'any')
            neg_list = isinstance(node, ast.UnaryOp) and isinstance(node.op, ast.Not) and isinstance(node.operand, (ast.ListComp, ast.Name))
            c = cmp_of(node)
            zero_len = c is not None and c.op == '==' and any('len(' in k for k in c.expr.terms) and c.expr.const == 0
            # counts of left-hand-side variables at which this guard raises
            if c is not None and len([k for k in c.expr.terms if 'len(' in str(k)]) == 1 and len(c.expr.terms) == 1:
                (k_, coef), = c.expr.terms.items()
                for n_ in range(4):
                    v_ = coef * n_ + c.expr.const
                    if {'<': v_ < 0, '<=': v_ <= 0, '==': v_ == 0, '!=': v_ != 0}[c.op]:
                        rejected.setdefault(n_, tn)
            elif neg_any or neg_list:
                rejected.setdefault(0, tn)
            if neg_any or neg_list or zero_len or (0 in rejected and rejected[0] is tn):
                good.append((r, tn))
            elif not (isinstance(node, ast.BoolOp)) and not any(v is tn for v in rejected.values()):
                unknown.append(tn)
    if 1 in rejected:
        R.violation(q, 'lhs-one-variable-rejected', f'`{text(rejected[1].ast)[:70]}` rejects a statement with exactly one variable on its left-hand side',
                    where=f.where(rejected[1]))
    if good:
        R.ok(q, 'a statement whose left-hand side yields no variable raises ParserError', detail=text(good[0][1].ast)[:90])
        _lhs_at_most_one(R, f, rejected, unknown, side_names)
        return
    if unknown:
        raise Unknown(f'{q}: emptiness test `{text(f.expand(unknown[0].id, unknown[0].ast, stop=side_names))[:60]}` not in the idiom table')
    # alternative: the grammar only admits an identifier on the left
    R.violation(q, 'no-lhs-variable-check',
                "no rejection when the left-hand side yields no variable ('[] = X', '{a} = X', '`self.Y[t]` = X' pass equation_re): "
                'the statement would be dropped silently', where=f.fi.where, mismatch=True)


def r5c_no_overwrite(R) -> None:
    """The returned symbols are the values of a dictionary keyed by name.  A store that replaces the entry of a name seen
    earlier discards that symbol (and with it the statement's equation, which only the ENDOGENOUS symbol carries): every
    store must merge with the present entry (`Symbol.combine`, which raises on a clash) or be made under `name not in D`."""
    n_stores = 0
    for q in (f'{P}.parse_equation', f'{P}.parse_model'):
        f = Fn(R, q)
        res = set()
        for r in f.returns():
            if r.ast.value is None:
                continue
            for x in ast.walk(r.ast.value):
                if method_call(x, 'values') and isinstance(x.func.value, ast.Name):
                    res.add(x.func.value.id)
        if not R.expect(q, len(res), 1, 'dictionary whose values are the returned symbols'):
            continue
        D = sorted(res)[0]
        for n in f.cfg.nodes:
            if n.ast is None or n.kind != 'stmt':
                continue
            tg = []
            if isinstance(n.ast, ast.Assign):
                tg = [t for t in n.ast.targets if isinstance(t, ast.Subscript) and text(t.value) == D]
            for x in ast.walk(n.ast):
                if method_call(x, 'update', '__setitem__') and text(x.func.value) == D:
                    raise Unknown(f'{q}: `{text(x)[:60]}` writes the result dictionary in a form not in the idiom table')
            for t in tg:
                n_stores += 1
                # the key is the symbol's name - or, for a symbol without one (verbatim code), something no other statement
                # can share (the running index): a key made from the block's text merges two identical blocks into one
                if isinstance(t.slice, ast.Name):
                    for (site_, dv) in f.lf.values_reaching(n.id, t.slice.id):
                        if dv is not None and isinstance(dv, ast.Attribute) and dv.attr in ('equation', 'code') and isinstance(dv.value, ast.Name):
                            R.violation(q, f'verbatim-merged:{text(dv)}', f'`{text(f.cfg.nodes[site_].ast)[:50]}` files a symbol without a name (a verbatim block) under its '
                                        f'text: a second, identical block meets the first under the same key and is merged into it - the statement is dropped silently',
                                        where=f.where(f.cfg.nodes[site_].ast))
                k = text(t.slice)
                ke = f.etext(n.id, t.slice, stop=(D,))
                v = f.expand(n.id, n.ast.value, stop=(D,))
                merges = any(method_call(x, 'combine') and any(
                    (method_call(y, 'get') and text(y.func.value) == D and y.args and text(y.args[0]) == ke)
                    or (isinstance(y, ast.Subscript) and text(y.value) == D and text(y.slice) == ke) for y in ast.walk(x.func.value))
                    for x in ast.walk(v))
                fresh = f.holds(n.id, f'{k} in {D}', False) or f.xholds(n.id, f'{k} in {D}', False, stop=(D,))
                if merges:
                    R.ok(q, f'`{text(n.ast)[:70]}` merges with the entry already stored under the name (Symbol.combine raises on a clash)')
                elif fresh:
                    R.ok(q, f'`{text(n.ast)[:70]}` is made only when the name has no entry yet')
                elif not any(isinstance(y, ast.Name) and y.id == D for y in ast.walk(v)):
                    R.violation(q, f'overwrite:{D}[{k}]',
                                f'`{text(n.ast)[:70]}` replaces whatever symbol is already stored under that name: a variable seen earlier in the statement is '
                                f"lost, and with it the statement's equation ('Y = Y(X)' parses to no equation at all)", where=f.where(n.ast))
                else:
                    raise Unknown(f'{q}: store `{text(n.ast)[:70]}` into the result dictionary is neither a combine() with the present entry nor guarded by absence')
    R.expect(P, n_stores, 3, 'stores into the result dictionaries of parse_equation / parse_model')


def r5d_repeated_definition(R) -> None:
    """Two statements defining one variable: Symbol.combine rejects them only when their texts differ (and cannot do
    otherwise: `D.get(k, s).combine(s)` combines a first definition with itself).  The merge loop of parse_model must
    therefore reject a second definition itself, whatever its text."""
    q = f'{P}.parse_model'
    f = Fn(R, q)
    stores = [n for n in f.cfg.nodes if n.ast is not None and n.kind == 'stmt' and isinstance(n.ast, ast.Assign) and n.loops
              and any(method_call(x, 'combine') for x in ast.walk(n.ast.value)) and isinstance(n.ast.targets[0], ast.Subscript)]
    if not R.expect(q, len(stores), 1, 'merge of a statement\'s symbols into the result (`D[name] = D.get(name, s).combine(s)`)'):
        return
    st = stores[0]
    D = text(st.ast.targets[0].value)
    comb = [x for x in ast.walk(st.ast.value) if method_call(x, 'combine')][0]
    sym = text(comb.args[0]) if comb.args else '?'
    found = None
    other = []
    for r in f.raises():
        if st.loops[-1] not in r.loops:
            continue
        # the key as it reads where the raise stands (a local that is the symbol's name on this path)
        k = f.etext(r.id, st.ast.targets[0].slice, stop=(D, sym))
        want = {(f'{sym}.equation is None', False), (f'{k} in {D}', True), (f'{D}[{k}].equation is None', False)}
        atoms = {(text(f.expand(tn.id, a, stop=(D, sym))), tr) for (a, tr, tn) in f.guard_atoms(r.id) if tn.loops and st.loops[-1] in tn.loops}
        # `name is None` (verbatim) on the other branch does not restrict named symbols
        atoms = {(a, tr) for (a, tr) in atoms if not (a in (f'{k} is None', f'{sym}.name is None') and not tr)}
        if atoms == want and f.raised(r) in OWN_ERRORS:
            found = r
        elif atoms & want:
            other.append((r, atoms))
    if found is not None:
        # the rejecting test must be met before the store
        tests = [tn for (a, tr, tn) in f.guard_atoms(found.id) if tn.loops and st.loops[-1] in tn.loops]
        if all(f.cfg.reaches(tn.id, st.id) for tn in tests):
            R.ok(q, 'a second statement defining an already defined variable raises, whatever its text', detail=f.where(found.ast))
            return
    if other:
        raise Unknown(f'{q}: a raise under {sorted(other[0][1])} precedes the merge; not the repeated-definition test this rule can read')
    # no such test: does combine() let equal texts through?
    c = Fn(R, f'{P}.Symbol.combine')
    rs = [r for r in c.raises('ParserError')]
    lenient = [r for r in rs if any(isinstance(a, ast.Compare) and isinstance(a.ops[0], ast.Eq) and not tr for (a, tr, _tn) in c.guard_atoms(r.id))]
    nested = [x for x in ast.walk(c.fi.node) if isinstance(x, ast.FunctionDef) and x is not c.fi.node
              and any(isinstance(y, ast.Raise) and 'ParserError' in text(y) for y in ast.walk(x))]
    if nested and not rs:
        for fn_ in nested:
            for y in ast.walk(fn_):
                if isinstance(y, ast.If) and isinstance(y.test, ast.Compare) and isinstance(y.test.ops[0], ast.NotEq) \
                        and any(isinstance(z, ast.Raise) for z in ast.walk(y)):
                    lenient.append(y)
    if lenient:
        R.violation(q, 'repeated-definition-merged',
                    f"no rejection of a statement that repeats an earlier definition: `{text(st.ast)[:70]}` relies on Symbol.combine, which raises only when the "
                    f"two equations differ ('Y = X' twice parses to one equation; the second statement is dropped silently)", where=f.where(st.ast), mismatch=True)
        return
    raise Unknown(f'{q}: no repeated-definition test before the merge and Symbol.combine\'s own test was not recognised')


def _syntax_checker(R):
    """The function that holds the syntax check: parse_model, or the helper it calls that compiles the generated code
    (found by role: the one function reachable from parse_model, through calls by bare name, with a plain `compile(...)`)."""
    q = f'{P}.parse_model'
    top = R.repo.func(q)
    mod = R.repo.module(P)
    defs = {n.name: n for n in mod.tree.body if isinstance(n, ast.FunctionDef)}

    def plain_compile(x):
        return is_call(x, 'compile') and 'PyCF_ONLY_AST' not in text(x)

    if any(plain_compile(x) for x in ast.walk(top.node)):
        return q, None
    seen, todo, found = set(), [top.node], []
    while todo:
        fn_ = todo.pop()
        for x in ast.walk(fn_):
            if isinstance(x, ast.Call) and isinstance(x.func, ast.Name) and x.func.id in defs and x.func.id not in seen:
                seen.add(x.func.id)
                if any(plain_compile(y) for y in ast.walk(defs[x.func.id])):
                    found.append(x.func.id)
                else:
                    todo.append(defs[x.func.id])
    if len(found) == 1 and found[0] not in ('parse_equation', 'parse_equation_terms', 'split_equations_iter', 'split_equations'):
        return f'{P}.{found[0]}', found[0]
    return q, None


def r5b_statement_kind(R) -> None:
    top_q = f'{P}.parse_model'
    q, helper = _syntax_checker(R)
    f = Fn(R, q)
    top = f if helper is None else Fn(R, top_q)
    tests = []
    for t in f.tests():
        if 'ast.Assign' in text(t.ast) and 'isinstance' in text(t.ast):
            tests.append(t)
    if not tests:
        # the test written as a predicate function (`return isinstance(node, ast.Assign) and ...`), possibly with the
        # counting done by unpacking (`(node,) = body` inside try/except ValueError: exactly one, or the handler answers False)
        for fn_ in R.repo.module(P).tree.body:
            if not isinstance(fn_, ast.FunctionDef):
                continue
            rets_ = [x for x in ast.walk(fn_) if isinstance(x, ast.Return) and x.value is not None and any(is_call(y, 'isinstance') and 'ast.Assign' in text(y) for y in ast.walk(x.value))]
            if not rets_:
                continue
            ev = [text(a) for r_ in rets_ for a in conj_atoms(r_.value)]
            par_ = {}
            for p_ in ast.walk(fn_):
                for c_ in ast.iter_child_nodes(p_):
                    par_[id(c_)] = p_
            for x in ast.walk(fn_):
                if isinstance(x, ast.Assign) and len(x.targets) == 1 and isinstance(x.targets[0], (ast.Tuple, ast.List)) and len(x.targets[0].elts) == 1 \
                        and not isinstance(x.targets[0].elts[0], ast.Starred):
                    cur = par_.get(id(x))
                    while cur is not None and not isinstance(cur, ast.Try):
                        cur = par_.get(id(cur))
                    if cur is not None and any(x is y for b_ in cur.body for y in ast.walk(b_)) and any(
                            (h.type is None or any(nm in text(h.type) for nm in ('ValueError', 'Exception'))) and h.body and isinstance(h.body[-1], ast.Return)
                            and isinstance(h.body[-1].value, ast.Constant) and h.body[-1].value.value is False for h in cur.handlers):
                        ev.append(f'len({text(x.value)}) == 1')
            one_stmt = any(a.startswith('len(') and a.endswith('== 1') and 'targets' not in a for a in ev)
            one_tgt = any(a.startswith('len(') and 'targets' in a and a.endswith('== 1') for a in ev)
            if one_stmt and not one_tgt and any('.targets[0]' in text(y) for y in ast.walk(fn_)):
                R.violation(f'{P}.{fn_.name}', 'statement-kind-conjuncts:first-target-only',
                            f'{fn_.name}() looks at `targets[0]` only: nothing establishes that the assignment has a single target, so a chained assignment (`D = A = B`, a mistyped '
                            f'`D = A == B`) passes the statement-kind test: `A` is classified exogenous and assigned', where=f'fsic/parser.py:{fn_.lineno}')
                return
            if one_stmt and one_tgt:
                raise Unknown(f'{P}.{fn_.name}: the statement-kind test is a predicate function; how its answer reaches the problem report was not followed')
        # is the generated statement inspected by anything else?
        uses_ast = any(is_call(x, 'ast.parse') or (is_call(x, 'compile') and 'PyCF_ONLY_AST' in text(x)) or 'ast.Assign' in text(x)
                       for fn_ in R.repo.module(P).tree.body if isinstance(fn_, ast.FunctionDef) for x in ast.walk(fn_) if isinstance(x, (ast.Call, ast.Attribute)))
        if uses_ast:
            raise Unknown(f'{q}: statement is parsed to an AST but no isinstance(..., ast.Assign) test was found where the code is compiled')
        R.violation(q, 'no-statement-kind-check',
                    "the syntax check only tests that the generated statement compiles: 'Y == X', 'Y += X', 'Y = Z = X', 'Y = X; Z = W' are accepted "
                    '(Y declared endogenous but never assigned, or an exogenous variable assigned)', where=f.fi.where, mismatch=True)
        return
    t = tests[0]
    node = t.ast
    neg = False
    if isinstance(node, ast.UnaryOp) and isinstance(node.op, ast.Not):
        neg = True
        node = node.operand
    atoms = [text(a) for a in conj_atoms(node)]
    has_one_stmt = any(a.startswith('len(') and a.endswith('== 1') and 'targets' not in a for a in atoms)
    has_assign = any('isinstance(' in a and 'ast.Assign' in a for a in atoms)
    has_one_tgt = any(a.startswith('len(') and 'targets' in a and a.endswith('== 1') for a in atoms)
    R.check(has_one_stmt and has_assign and has_one_tgt, q, 'statement-kind-conjuncts:' + ';'.join(atoms)[:100],
            'an equation must be one statement, an Assign, with one target',
            f'statement-kind test lacks a conjunct (one statement={has_one_stmt}, ast.Assign={has_assign}, one target={has_one_tgt})', where=f.where(t))
    # failing branch records a problem or raises
    fail_edge = 'T' if neg else 'F'
    tg = [b for (b, lab) in t.succ if lab == fail_edge]

    # the list of problem statements, by role: a local list that is appended to here and tested before a ParserError is raised
    problem_lists = {'problem_statements'}
    try:
        _pf = Fn(R, f'{P}.parse_model')
        for r_ in _pf.raises('ParserError'):
            for (a_, tr_, _tn) in _pf.guard_atoms(r_.id):
                for x_ in ast.walk(a_):
                    if isinstance(x_, ast.Name) and x_.id in _pf.lf.locals and any(
                            isinstance(c_, ast.Call) and isinstance(c_.func, ast.Attribute) and c_.func.attr == 'append' and isinstance(c_.func.value, ast.Name) and c_.func.value.id == x_.id
                            for c_ in ast.walk(_pf.fi.node)):
                        problem_lists.add(x_.id)
    except Exception:
        pass

    def records(first_ast) -> bool:
        return first_ast is not None and (any(f'{pl_}.append' in text(first_ast) for pl_ in problem_lists) or isinstance(first_ast, ast.Raise))

    ok = False
    for b in tg:
        first = f.cfg.nodes[b]
        if records(first.ast):
            ok = True
        elif helper is not None and isinstance(first.ast, ast.Return) and isinstance(first.ast.value, ast.Constant):
            # the helper answers `False` (`True`): the caller must record the problem on that answer
            falsy = not first.ast.value.value
            for tt in top.tests():
                core, neg2 = tt.ast, False
                if isinstance(core, ast.UnaryOp) and isinstance(core.op, ast.Not):
                    core, neg2 = core.operand, True
                if is_call(core, helper):
                    edge = ('T' if neg2 else 'F') if falsy else ('F' if neg2 else 'T')
                    for (b2, lab2) in tt.succ:
                        if lab2 == edge and records(top.cfg.nodes[b2].ast):
                            ok = True
            if not ok and not any(is_call(tt.ast, helper) or (isinstance(tt.ast, ast.UnaryOp) and is_call(tt.ast.operand, helper)) for tt in top.tests()):
                raise Unknown(f'{top_q}: the answer of {helper}() is not tested directly')
        elif isinstance(first.ast, ast.Assign) and isinstance(first.ast.value, ast.Constant):
            raise Unknown(f'{q}: the failing branch of the statement-kind test sets a flag (`{text(first.ast)[:50]}`); its use was not followed')
    R.check(ok, q, 'statement-kind-fails', 'a statement of the wrong kind is recorded as a problem (ParserError)',
            'the failing branch of the statement-kind test neither records a problem nor raises', where=f.where(t))
    # what is checked is what will be built: the compiled text is the symbol's code itself
    comp = [x for x in ast.walk(f.fi.node) if is_call(x, 'compile') and 'PyCF_ONLY_AST' not in text(x)]
    # ... and it is compiled a second time as it is going to run: indented into the body of a method with the parameters of the
    # template's `_evaluate` (where `from x import *`, `global t`, a `__future__` import are errors that the first compile accepts)
    want_params = _template_evaluate_params(R)
    body_forms = []
    for c in list(comp):
        got = _as_method_body(c.args[0] if c.args else None)
        if got is None:
            continue
        params, code_arg = got
        comp.remove(c)
        node = [m for m in f.cfg.nodes if m.ast is not None and any(y is c for y in ast.walk(m.ast))]
        code_ok = isinstance(code_arg, ast.Attribute) and code_arg.attr == 'code'
        if isinstance(code_arg, ast.Name) and node:
            vals = f.lf.values_reaching(node[0].id, code_arg.id)
            code_ok = bool(vals) and all(dv is not None and isinstance(dv, ast.Attribute) and dv.attr == 'code' for (_s, dv) in vals)
        R.check(code_ok and want_params <= params, q, 'checked-as-method-body:' + text(c)[:40],
                'the code is also compiled as the body of a method with the parameters of the generated `_evaluate`',
                f'`{text(c)[:70]}` compiles the code inside a function, but not the code itself inside a function with the parameters of the generated '
                f'`_evaluate` ({sorted(want_params)}): got parameters {sorted(params)}', where=f.fi.where)
        body_forms.append(c)
    R.check(bool(body_forms), q, 'checked-as-method-body', 'the syntax check compiles the code in the setting it runs in (a method body)',
            'the syntax check compiles each piece of code on its own only, at module level: `from math import *`, `global t` or a `__future__` import in verbatim code '
            'pass it, parse_model() returns, and build_model() then fails (BuildError) because the same text is a SyntaxError inside the body of `_evaluate(self, t, ...)`',
            where=f.fi.where)
    for c in comp:
        a0 = c.args[0] if c.args else None
        same = False
        if isinstance(a0, ast.Name):
            node = [m for m in f.cfg.nodes if m.ast is not None and any(y is c for y in ast.walk(m.ast))]
            if node:
                vals = f.lf.values_reaching(node[0].id, a0.id)
                same = bool(vals) and all(dv is not None and (text(dv).endswith('.code') and isinstance(dv, ast.Attribute)) for (_s, dv) in vals) or \
                    all(sx == f.cfg.nodes[sx].id and f.cfg.nodes[sx].kind == 'for' for (sx, _dv) in vals)
        elif isinstance(a0, ast.Attribute) and a0.attr == 'code':
            same = True
        R.check(same, q, 'checked-text-is-built-text:' + (text(a0)[:40] if a0 is not None else '?'),
                'the syntax check compiles exactly the code that build_model will insert',
                f'`{text(c)[:70]}` compiles a transformed text (not the symbol\'s `code` itself): a statement can pass the check and still fail to build '
                f'(or the reverse)', where=f.fi.where)
    # the AST comes from the same text that was compiled
    compiled = {text(c.args[0]) for c in comp if c.args}
    src_ok = False
    for x in ast.walk(f.fi.node):
        if is_call(x, 'ast.parse') and x.args and text(x.args[0]) in compiled:
            src_ok = True
        if is_call(x, 'compile') and 'PyCF_ONLY_AST' in text(x) and text(x.args[0]) in compiled:
            src_ok = True
    R.check(src_ok, q, 'statement-kind-source', 'the inspected AST is that of the generated statement', f'the AST inspected is not parsed from the generated statement (the text that is compiled: {sorted(compiled)})', where=f.where(t))
    # exemptions: only verbatim code
    ex = []
    for (a, truth, tn) in f.guard_atoms(t.id):
        if 'type' in text(a) and 'Type.' in text(a):
            ex.append((text(a), truth))
    import re as _re
    ok_ex = all((_re.fullmatch(r'\w+\.type != Type\.VERBATIM', a) and truth) or (_re.fullmatch(r'\w+\.type == Type\.VERBATIM', a) and not truth) or
                (_re.fullmatch(r'\w+\.type == Type\.ENDOGENOUS', a) and truth) for (a, truth) in ex)
    R.check(bool(ok_ex), q, 'statement-kind-exemptions:' + repr(ex)[:80], 'only verbatim code is exempt from the statement-kind test',
            f'the statement-kind test is skipped under {ex}', where=f.where(t))


# ---------------------------------------------------------------------------
def r6_termination(R) -> None:
    esc = Escape(R.repo, P, fsic_hierarchy(R.repo))
    reach = set()
    for root in (f'{P}.parse_model', f'{P}.build_model', f'{P}.build_model_definition'):
        reach |= esc.reachable_functions(root)
    n_loops = 0
    for fq in sorted(reach):
        fi = R.repo.func(fq)
        for n in iter_own_nodes(fi.node):
            if isinstance(n, ast.While):
                # `while True` with a strictly shrinking fixpoint is not used by the parser; flag any while
                R.violation(fq, 'while:' + text(n.test)[:40], f'`while {text(n.test)[:40]}` loop in the parser call graph: termination is not evident from the loop shape',
                            where=f'{fi.module.relpath}:{n.lineno}')
            if isinstance(n, (ast.For, ast.comprehension)):
                n_loops += 1
                it = n.iter
                bad = any(is_call(x, 'itertools.count', 'itertools.cycle', 'itertools.repeat', 'iter') and (dotted(x.func) != 'iter' or len(x.args) == 2)
                          for x in ast.walk(it))
                if bad:
                    R.violation(fq, 'infinite-iter:' + text(it)[:40], f'loop over a potentially infinite iterator `{text(it)[:40]}`',
                                where=f'{fi.module.relpath}:{getattr(n, "lineno", 0)}')
    esc.esc(f'{P}.parse_model')
    R.check(not esc.recursive, P, 'no-recursion', 'no recursion in the parser call graph', f'recursive functions: {sorted(esc.recursive)}')
    R.ok(P, f'{n_loops} loops in {len(reach)} functions all iterate finite iterables computed before the loop; no while loop')
    R.expect(P, n_loops, 15, 'for-loops/comprehensions in the parser call graph')


# ---------------------------------------------------------------------------
def r7_end_of_input(R) -> None:
    q = f'{P}.split_equations_iter'
    f = Fn(R, q)
    loops = [n for n in f.cfg.nodes if n.kind == 'for' and not n.loops]
    main = [n for n in loops if 'splitlines' in text(n.ast.iter)]
    if not R.expect(q, len(main), 1, 'main loop over the lines of the script'):
        return
    lp = main[0]
    # completion predicate: the test guarding the yield
    ys = [n for n in f.cfg.nodes if n.ast is not None and n.kind == 'stmt' and any(isinstance(x, ast.Yield) for x in ast.walk(n.ast))]
    if not R.require(q, len(ys), 'yield of a complete statement', fi=f.fi, pred=lambda x: isinstance(x, ast.Yield)):
        return
    # completion predicate: the conditions on state carried from line to line under which a buffered statement is
    # released.  (Conditions on values computed afresh in this iteration - the blank-statement skip - hold nothing back.)
    from fsa.match import atoms_equal, nnf_atoms

    def carried(tn, a) -> bool:
        names = {x.id for x in ast.walk(a) if isinstance(x, ast.Name) and x.id in f.lf.locals}
        def from_before(s_, nm_):
            # defined before the loop - or updated from its own previous value (`x += ...`, `x = x + ...`): either way the
            # value depends on earlier lines
            if s_ == PARAM or lp.id not in f.cfg.nodes[s_].loops:
                return True
            a_ = f.cfg.nodes[s_].ast
            return isinstance(a_, ast.AugAssign) or (isinstance(a_, ast.Assign) and any(isinstance(x, ast.Name) and x.id == nm_ for x in ast.walk(a_.value)))
        return bool(names) and all(any(from_before(s, nm) for (s, _v) in f.lf.values_reaching(tn.id, nm)) for nm in names)

    def flagform(a, truth):
        """`x is False` / `x == False` / `x is not True` read as the flag x being false."""
        if isinstance(a, ast.Compare) and len(a.ops) == 1 and isinstance(a.ops[0], (ast.Is, ast.Eq)) and isinstance(a.left, ast.Name) \
                and isinstance(a.comparators[0], ast.Constant) and isinstance(a.comparators[0].value, bool):
            return (a.left, truth == a.comparators[0].value)
        return (a, truth)

    atoms = []
    comp = None
    for (a, truth, tn) in f.guard_atoms(ys[0].id):
        if tn.kind == 'test' and lp.id in tn.loops and len(tn.loops) == 1 and carried(tn, a):
            atoms.append(flagform(a, truth))
            comp = comp or tn
    if comp is None:
        raise Unsupported(f'{q}: completion predicate not found')
    post = [t for t in f.tests() if not t.loops and lp.id in f.dom[t.id]]
    for (a, truth) in atoms:
        covered = False
        ca = cmp_of(a)
        if ca is not None and not truth:
            ca = ca.negate()
        for t in post:
            raises = any(isinstance(f.cfg.nodes[b].ast, ast.Raise) for (b, lab) in t.succ if lab == 'T')
            if not raises:
                continue
            pa = nnf_atoms(t.ast, True)
            if len(pa) != 1:
                continue
            b_, tb = flagform(*pa[0])
            if atoms_equal(a, b_) and tb != truth:
                covered = True
            ct = cmp_of(b_)
            if ct is not None and not tb:
                ct = ct.negate()
            if ca is not None and ct is not None:
                if ct == ca.negate() or ct.as_int() == ca.negate().as_int():
                    covered = True
                # x == 0 in loop; x != 0 / x > 0 after (x is never negative past the in-loop check)
                if ca.op == '==' and ct.op in ('<', '!=') and set(ca.expr.terms) == set(ct.expr.terms):
                    covered = True
        shown = text(a) if truth else f'not ({text(a)})'
        R.check(covered, q, f'end-of-input:{shown}', f'an incomplete statement at end of input (`{shown}` false) is rejected',
                f'the completion predicate requires `{shown}` but no check after the loop raises when it is false: a non-empty buffer '
                f'is dropped silently at end of input', where=f.where(comp))
    R.expect(q, len(atoms), 2, 'conjuncts of the completion predicate')


# ---------------------------------------------------------------------------
# R8: nothing that parsing or building a *string* can reach touches the world outside the returned objects.
EFFECT_CALLS = {
    'open': 'opens a file', 'print': 'writes to standard output', 'input': 'reads standard input', '__import__': 'imports a module by name',
    'breakpoint': 'enters the debugger',
}
EFFECT_PREFIXES = {
    'os.': 'consults or changes the operating-system state (file system, environment, working directory)',
    'shutil.': 'changes the file system', 'subprocess.': 'starts a process', 'tempfile.': 'creates files', 'pathlib.': 'names a location in the file system',
    'importlib.': 'imports a module by name', 'random.': 'reads or changes the global random state', 'np.random.': 'reads or changes the global random state',
    'time.': 'reads the clock', 'locale.': 'reads or changes the process locale', 'logging.': 'writes to the process-wide logging configuration',
    'sys.set': 'changes interpreter-wide settings', 'sys.exit': 'ends the process', 'sys.path.': 'changes the import path',
    'np.seterr': 'changes NumPy\'s process-wide error state', 'np.set_printoptions': 'changes NumPy\'s process-wide print options',
}
PURE_OS = {'os.fspath', 'os.path.join', 'os.path.basename', 'os.path.dirname', 'os.path.splitext', 'os.path.split', 'os.path.normpath', 'os.fsdecode', 'os.fsencode'}
WARNING_FILTERS = {'warnings.simplefilter', 'warnings.filterwarnings', 'warnings.resetwarnings'}


def _within_catch_warnings(fnode: ast.AST, node: ast.AST) -> bool:
    for w in ast.walk(fnode):
        if isinstance(w, ast.With) and any(is_call(it.context_expr, 'warnings.catch_warnings') for it in w.items):
            if any(x is node for b in w.body for x in ast.walk(b)):
                return True
    return False


def r8_outside_effects(R) -> None:
    esc = Escape(R.repo, P, fsic_hierarchy(R.repo))
    reach: Set[str] = set()
    for e in ('parse_model', 'build_model', 'build_model_definition'):
        reach |= esc.reachable_functions(f'{P}.{e}')
    reach = {q for q in reach if q.startswith(P + '.')}
    mod = R.repo.module(P)
    imported = set()
    for st in mod.tree.body:
        if isinstance(st, ast.Import):
            imported |= {(a.asname or a.name).split('.')[0] for a in st.names}
    n_sites = n_filters = 0
    for q in sorted(reach):
        fi = R.repo.functions[q]
        f = None
        for n in iter_own_nodes(fi.node):
            where = f'{fi.module.relpath}:{getattr(n, "lineno", fi.node.lineno)}'
            if isinstance(n, ast.Global):
                R.violation(q, f'global:{",".join(n.names)}', f'`global {", ".join(n.names)}` in {fi.name}(): parsing/building rebinds module-level state', where=where)
                continue
            if isinstance(n, (ast.Assign, ast.AugAssign)):
                for tg in (n.targets if isinstance(n, ast.Assign) else [n.target]):
                    base = tg
                    while isinstance(base, (ast.Attribute, ast.Subscript)):
                        base = base.value
                    if isinstance(tg, (ast.Attribute, ast.Subscript)) and isinstance(base, ast.Name) and base.id in imported and base.id not in fi.params() \
                            and base.id not in {x.id for x in ast.walk(fi.node) if isinstance(x, ast.Name) and isinstance(x.ctx, ast.Store)}:
                        R.violation(q, f'module-state:{text(tg)[:40]}', f'`{text(n)[:60]}` in {fi.name}() stores into the imported module `{base.id}`: an effect outside the returned objects', where=where)
                continue
            if not isinstance(n, ast.Call):
                continue
            d = dotted(n.func) or ''
            if d in WARNING_FILTERS:
                n_filters += 1
                if _within_catch_warnings(fi.node, n):
                    R.check(True, q, f'filter-scoped:{d}', 'the warnings filter is changed inside warnings.catch_warnings(), which restores it', '', where=where)
                    continue
                # is every call of this function itself inside a catch_warnings block?
                callers = [(g, x) for g in R.repo.functions.values() if g.qualname.startswith(P + '.') for x in iter_own_nodes(g.node) if is_call(x, fi.name)]
                if callers and all(_within_catch_warnings(g.node, x) for (g, x) in callers):
                    R.check(True, q, f'filter-scoped-by-caller:{d}', 'the warnings filter is changed by a helper that is only called inside warnings.catch_warnings()', '', where=where)
                    continue
                if callers and any(_within_catch_warnings(g.node, x) for (g, x) in callers):
                    raise Unknown(f'{q}: `{d}` is reached both inside and outside warnings.catch_warnings()')
                R.violation(q, f'filter-leaks:{d}',
                            f'`{text(n)[:50]}` in {fi.name}() runs outside any `with warnings.catch_warnings()` block: the filter it installs is never removed, so every '
                            f'parse changes `warnings.filters` for the rest of the process (an effect outside the returned objects)', where=where)
                continue
            why = EFFECT_CALLS.get(d)
            if why is None and d not in PURE_OS:
                why = next((w_ for pre, w_ in EFFECT_PREFIXES.items() if d.startswith(pre)), None)
            if why is None:
                continue
            n_sites += 1
            # a site that a *string* input cannot reach (guarded by a type test that no str passes) is outside the property
            f = f or Fn(R, q)
            node = [m for m in f.cfg.nodes if m.ast is not None and any(x is n for x in ast.walk(m.ast))]
            exempt = False
            if node:
                for (a, truth, _t) in f.guard_atoms(node[0].id):
                    if truth and is_call(a, 'isinstance') and len(a.args) == 2 and text(a.args[1]) not in ('str', 'object') and 'str' not in text(a.args[1]):
                        exempt = True
                    if truth and is_call(a, 'hasattr') and len(a.args) == 2 and isinstance(a.args[1], ast.Constant) and not hasattr('', str(a.args[1].value)):
                        exempt = True
                    if not truth and is_call(a, 'isinstance') and len(a.args) == 2 and text(a.args[1]) == 'str':
                        exempt = True
            if exempt:
                R.check(True, q, f'effect-not-for-strings:{d}', 'the call is reached only for inputs that are not strings', '', where=where)
                continue
            R.violation(q, f'outside-effect:{d}',
                        f'`{text(n)[:60]}` in {fi.name}() {why}: parse_model/build_model can reach it for a string input, so the result or the process state '
                        f'depends on (or changes) something outside the input and the returned objects', where=where)
    R.check(len(reach) >= 8, P, 'effects-scope', 'functions on the parse/build call graph scanned for outside effects', f'only {len(reach)} functions reachable from parse_model/build_model', where='fsic/parser.py')


def run(R) -> None:
    R.explanation = (
        'C13: who-may-exec over fsic/parser.py with provenance of the executed text; format-string taint of the template by '
        'reaching definitions and an escape-idiom table; exception-escape summary of parse_model over its call graph with a raiser '
        'table and handler modelling, every non-own exception either reported or discharged by a named static fact (regex-AST, '
        'string-shape, dominance); names reserved by the BaseModel __init__ chain (events laid out along the MRO) vs names the parser '
        'knows; left-hand-side and statement-kind checks; loop/recursion shape; end-of-input coverage of every conjunct of the '
        'completion predicate; who-may-call table of outside effects (files, OS, process-wide settings, warnings filters outside catch_warnings) over the parse/build call graph. Does not decide catastrophic backtracking nor that build_model succeeds for every accepted script.'
    )
    R.rule('C13.R1', lambda: r1_who_may_exec(R))
    R.rule('C13.R2', lambda: r2_format_taint(R))
    R.rule('C13.R3', lambda: r3_escape(R))
    R.rule('C13.R4', lambda: r4_reserved_names(R))
    R.rule('C13.R5a', lambda: r5a_lhs_variable(R))
    R.rule('C13.R5b', lambda: r5b_statement_kind(R))
    R.rule('C13.R5c', lambda: r5c_no_overwrite(R))
    R.rule('C13.R5d', lambda: r5d_repeated_definition(R))
    R.rule('C13.R6', lambda: r6_termination(R))
    R.rule('C13.R7', lambda: r7_end_of_input(R))
    R.rule('C13.R8', lambda: r8_outside_effects(R))
