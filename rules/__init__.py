"""Property-specific rule sets (C01..C20).  Tables of confirmed instances live here."""
