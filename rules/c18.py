"""C18 - an alias is indistinguishable from the variable it names."""

from __future__ import annotations

import ast
from typing import Dict, List, Optional, Set

from fsa.effects import direct_writes
from fsa.flow import PARAM
from fsa.match import dict_slot, dotted, is_call, is_const, is_self_call, is_super_call, is_underscore_key, kwarg, method_call, has_star_args
from fsa.source import Unsupported, c3_mro, iter_own_nodes, resolve_method, stmt_key, text
from rules.common import Fn

A = 'fsic.extensions.common.AliasMixin'
RES = 'self._resolve_alias'


def r1_dunders(R) -> None:
    # attribute access
    for m, nargs in (('__getattr__', 1), ('__setattr__', 2)):
        q = f'{A}.{m}'
        f = Fn(R, q)
        calls = [x for x in ast.walk(f.fi.node) if is_super_call(x, m)]
        if not R.require(q, len(calls), f'super().{m}(self._resolve_alias(name), ...)', fi=f.fi, pred=lambda x, m=m: is_super_call(x, m)):
            continue
        c = calls[0]
        ok = len(calls) == 1 and len(c.args) == nargs and text(c.args[0]) == f'{RES}(name)' and (nargs == 1 or text(c.args[1]) == 'value')
        R.check(ok, q, 'resolve-and-pass:' + text(c), 'the name is resolved through the alias map, everything else passes unchanged',
                f'`{text(c)}` does not pass (self._resolve_alias(name){", value" if nargs == 2 else ""}) to the base', where=f.fi.where)
        if m == '__getattr__':
            rets = f.returns()
            R.check(len(rets) == 1 and rets[0].ast.value is c, q, 'returns-base', 'the base result is returned', '__getattr__ does not return the base result', where=f.fi.where)
    # item access
    for m in ('__getitem__', '__setitem__'):
        q = f'{A}.{m}'
        f = Fn(R, q)
        calls = [x for x in ast.walk(f.fi.node) if is_super_call(x, m)]
        if not R.require(q, len(calls), f'super().{m}(key, ...)', fi=f.fi, pred=lambda x, m=m: is_super_call(x, m)):
            continue
        c = calls[0]
        from fsa.gated import SymExec, canon, seq_elements
        ps = f.fi.params()
        key = ps[1] if len(ps) > 1 else 'key'
        R.check(len(calls) == 1 and len(c.args) == (1 if m == '__getitem__' else 2) and not c.keywords and (m == '__getitem__' or text(c.args[1]) == ps[2]), q,
                'base-call:' + text(c)[:60], 'the (re-keyed) key and the value go to the base', f'`{text(c)}`', where=f.fi.where)
        rets = f.returns()
        R.check(len(rets) == 1 and rets[0].ast.value is c, q, 'returns-base', 'the base result is returned', f'{m} does not return the base result', where=f.fi.where)
        # what the base receives as key, as one gated expression over the key given
        se = f.symexec(methods=True, exclude=(RES, 'self.__getitem__', 'self.__setitem__'))
        st_ = [s_ for s_ in ast.walk(f.fi.node) if isinstance(s_, ast.stmt) and id(s_) in se.before and any(x is c for x in ast.walk(s_))]
        kv = canon(se.value(st_[-1], c.args[0])) if st_ and c.args else None
        if kv is None:
            raise Unsupported(f'{q}: base call not visited')
        plain = tup = None
        if isinstance(kv, ast.IfExp) and text(kv.test) == f'isinstance({key}, tuple)':
            tup, plain = kv.body, kv.orelse
        elif text(kv) == f'{RES}({key})':
            plain = kv
        else:
            raise Unsupported(f'{q}: the key handed to the base is `{text(kv)[:80]}`')
        R.check(plain is not None and text(plain) == f'{RES}({key})', q, 'plain-key', 'a plain name key is resolved', 'a plain key is not passed through _resolve_alias'
                + (f' (it becomes `{text(plain)[:50]}`)' if plain is not None else ''), where=f.fi.where, decided=True)
        ok = False
        shown = '<missing>'
        if tup is not None:
            shown = text(tup)[:70]
            el = seq_elements(tup)
            if el is not None and len(el) == 2 and el[0][0] == 'elt' and text(el[0][1]) == f'{RES}({key}[0])' and el[1][0] == 'star':
                rest = el[1][1]
                while isinstance(rest, ast.Call) and isinstance(rest.func, ast.Name) and rest.func.id in ('list', 'tuple') and len(rest.args) == 1:
                    rest = rest.args[0]
                ok = text(rest) == f'{key}[1:]'
            # every item of the key mapped through the alias table: the span index is looked up as if it were a name
            if not ok and isinstance(tup, ast.Call) and isinstance(tup.func, ast.Name) and tup.func.id in ('tuple', 'list') and len(tup.args) == 1 \
                    and isinstance(tup.args[0], (ast.GeneratorExp, ast.ListComp)) and len(tup.args[0].generators) == 1 \
                    and text(tup.args[0].generators[0].iter) == key and text(tup.args[0].elt) == f'{RES}({text(tup.args[0].generators[0].target)})':
                shown = text(tup)[:70] + ' (the span index, too, is looked up in the alias table: a period label that happens to be an alias name is replaced by a variable name)'
        R.check(ok, q, 'tuple-key:' + shown[:60], 'in a (name, index) key only the name is resolved; the index part passes unchanged',
                f'tuple keys become `{shown}`', where=f.fi.where, decided=True)
    # _resolve_alias
    q = f'{A}._resolve_alias'
    fi = R.repo.func(q)
    rets = [x for x in ast.walk(fi.node) if isinstance(x, ast.Return)]
    ok = len(rets) == 1 and text(rets[0].value) in ('self.aliases.get(alias, alias)', "self.__dict__['aliases'].get(alias, alias)")
    R.check(ok, q, 'resolve:' + (text(rets[0].value) if rets else '?'), 'an alias maps to its variable, any other name to itself', f'`{text(rets[0].value) if rets else "?"}`', where=fi.where)


def r2_constructor(R) -> None:
    q = f'{A}.__init__'
    f = Fn(R, q)
    calls = f.nodes_with(lambda x: is_super_call(x, '__init__'))
    if not R.require(q, len(calls), 'super().__init__(*args, **{resolved kwargs})', fi=f.fi, pred=lambda x: is_super_call(x, '__init__')):
        return
    n = calls[0]
    c = [x for x in ast.walk(n.ast) if is_super_call(x, '__init__')][0]
    stars = [k.value for k in c.keywords if k.arg is None]
    if len(stars) == 1 and isinstance(stars[0], ast.Name):
        # the re-keyed mapping built first and passed on by name (the parameter itself rebound included)
        vals = f.lf.values_reaching(n.id, stars[0].id)
        if len(vals) == 1 and isinstance(vals[0][1], ast.DictComp) and stars[0].id not in f.mutated_in_place():
            dc0 = vals[0][1]
            src_ = dc0.generators[0].iter
            # `kwargs = {... for k, v in kwargs.items()}`: the iterated `kwargs` is the parameter as passed in
            if isinstance(src_, ast.Call) and isinstance(src_.func, ast.Attribute) and isinstance(src_.func.value, ast.Name):
                inner = f.lf.values_reaching(vals[0][0], src_.func.value.id)
                if all(s_ == PARAM for (s_, _v) in inner):
                    stars = [dc0]
    ok = has_star_args(c, 'args') and len(stars) == 1 and isinstance(stars[0], ast.DictComp)
    if ok:
        dc = stars[0]
        kv = [x.id for x in ast.walk(dc.generators[0].target) if isinstance(x, ast.Name)]
        ok = text(dc.generators[0].iter) == 'kwargs.items()' and len(kv) == 2 and text(dc.key) == f'{RES}({kv[0]})' and text(dc.value) == kv[1] and not dc.generators[0].ifs
    R.check(ok, q, 'kwargs-rekeyed:' + text(c)[:80], 'constructor keywords are re-keyed through the alias map, values unchanged',
            f'`{text(c)[:90]}` does not re-key kwargs through _resolve_alias', where=f.where(n))
    # aliases established before
    st = [m for m in f.cfg.nodes if m.kind == 'stmt' and isinstance(m.ast, ast.Assign) and dict_slot(m.ast.targets[0]) is not None
          and is_const(dict_slot(m.ast.targets[0])[1], 'aliases')]
    if R.require(q, len(st), "self.__dict__['aliases'] = aliases", fi=f.fi, pred=lambda x: isinstance(x, ast.Constant) and x.value == 'aliases'):
        R.check(st[0].id in f.dom[n.id], q, 'aliases-before-base', 'the alias map exists before the base constructor runs',
                'the base constructor can run before the alias map is set', where=f.where(st[0]))
    # chain shortening: typestate of the alias map along the CFG.  FREE = holds no self-map (k -> k).  AM value is read as
    # nested operations on the previous map: filter({k: v ... if k != v}) -> FREE; substitution ({k: m.get(v, v) ...}) and
    # the initial copy -> not FREE.  Required: the map is FREE at every evaluation of the termination test (a self-map is in
    # both keys and values for ever) and at the final store; the loop leaves exactly when keys and values are disjoint.
    from fsa.gated import _as_test
    if not st:
        return
    A_expr = st[0].ast.value
    if not isinstance(A_expr, ast.Name):
        raise Unsupported(f'{q}: the stored alias map `{text(A_expr)[:40]}` is not a local name')
    AM = A_expr.id

    # the map may pass through several locals on its way (a helper read in place works on its own parameter and hands the
    # result back): every local whose definitions are such steps on another tracked local belongs to the family
    family = {AM}

    def parse(e: ast.AST):
        """('A', name) | ('init') | ('filter', inner) | ('subst', inner) | None"""
        if isinstance(e, ast.Name) and e.id in family:
            return ('A', e.id)
        if isinstance(e, ast.Name) and e.id in f.lf.locals and e.id not in f.fi.params():
            # a candidate member: accepted if all its definitions parse
            family.add(e.id)
            ok_ = all(parse(f.expand(d_.node.id, d_.value, stop=tuple(family), comps=True)) is not None for d_ in f.vdefs(e.id))
            if ok_ and f.vdefs(e.id):
                return ('A', e.id)
            family.discard(e.id)
            return None
        if is_call(e, 'copy.deepcopy', 'copy.copy', 'dict') and len(e.args) == 1 and text(e.args[0]) in ('self.ALIASES', 'type(self).ALIASES', 'self.__class__.ALIASES'):
            return ('init',)
        if text(e) in ('self.ALIASES', 'type(self).ALIASES', 'self.__class__.ALIASES'):
            return ('init',)  # whether the class-level object may be kept uncopied is C11.R3's question
        if isinstance(e, ast.DictComp) and len(e.generators) == 1:
            g = e.generators[0]
            kv = [x.id for x in ast.walk(g.target) if isinstance(x, ast.Name)]
            if len(kv) == 2 and method_call(g.iter, 'items') and not g.iter.args and text(e.key) == kv[0]:
                inner = parse(g.iter.func.value)
                if inner is None:
                    return None
                conds = [(text(a_), tr) for c_ in g.ifs for (a_, tr) in __import__('fsa.match', fromlist=['nnf_atoms']).nnf_atoms(c_, True)]
                if text(e.value) == kv[1] and conds in ([(f'{kv[0]} == {kv[1]}', False)], [(f'{kv[1]} == {kv[0]}', False)]):
                    return ('filter', inner)
                if not conds and method_call(e.value, 'get') and [text(a_) for a_ in e.value.args] == [kv[1], kv[1]] \
                        and ast.dump(e.value.func.value) == ast.dump(g.iter.func.value):
                    return ('subst', inner)
        return None

    def has(op, kind):
        while op is not None and len(op) > 1 and op[0] != 'A':
            if op[0] == kind:
                return True
            op = op[1]
        return False

    def root(op):
        while op is not None and op[0] in ('filter', 'subst'):
            op = op[1]
        return op

    defs = {}      # node id -> (name defined, op)
    done = set()
    todo = [AM]
    while todo:
        nm_ = todo.pop()
        if nm_ in done:
            continue
        done.add(nm_)
        for d in f.vdefs(nm_):
            x = f.expand(d.node.id, d.value, stop=tuple(family), comps=True)
            op = parse(x)
            if op is None:
                raise Unsupported(f'{q}: `{nm_} = {text(x)[:80]}` is not a copy, a self-map filter or a substitution step of the alias map')
            defs[d.node.id] = (nm_, op)
            r_ = root(op)
            if r_ is not None and r_[0] == 'A' and r_[1] not in done:
                todo.append(r_[1])
    # forward may-analysis: set of possible states of AM at node entry
    FREE, NOT, UNDEF_ = 'free', 'not-free', 'undef'
    names_ = sorted(done)
    st_in = {n.id: {nm_: set() for nm_ in names_} for n in f.cfg.nodes}
    for nm_ in names_:
        st_in[f.cfg.entry][nm_] = {UNDEF_}
    work = [f.cfg.entry]
    while work:
        nid = work.pop()
        cur = st_in[nid]
        out = {nm_: set(v_) for nm_, v_ in cur.items()}
        if nid in defs:
            nm_, op = defs[nid]
            if op[0] == 'filter':
                out[nm_] = {FREE}
            elif op[0] == 'A':
                out[nm_] = set(cur[op[1]])
            else:
                out[nm_] = {NOT}
        for (b_, lab) in f.cfg.nodes[nid].succ:
            changed = False
            for nm_ in names_:
                if not out[nm_] <= st_in[b_][nm_]:
                    st_in[b_][nm_] |= out[nm_]
                    changed = True
            if changed:
                work.append(b_)
    state_in = {nid: v_[AM] for nid, v_ in st_in.items()}
    def inter_forms_of(N):
        return {f'set({N}.keys()) & set({N}.values())', f'set({N}.values()) & set({N}.keys())', f'set({N}) & set({N}.values())', f'set({N}.values()) & set({N})',
                f'{N}.keys() & set({N}.values())', f'{N}.keys() & {N}.values()'}
    term_tests = []
    tested_name = {}
    for t in f.cfg.nodes:
        if t.kind not in ('test', 'while') or not t.loops and t.kind != 'while':
            continue
        te = _as_test(t.ast if t.kind == 'test' else t.ast.test)
        pos = True
        if isinstance(te, ast.UnaryOp) and isinstance(te.op, ast.Not):
            te, pos = te.operand, False
        for N in names_:
            if text(te) in inter_forms_of(N):
                term_tests.append((t, pos))
                tested_name[t.id] = N
    if not term_tests:
        raise Unsupported(f'{q}: no test of `set(keys) & set(values)` controls the shortening loop')
    # every way out of the shortening loop is the "disjoint" outcome of the termination test
    for lid in {t.id if t.kind == 'while' else t.loops[-1] for (t, _p) in term_tests}:
        L = f.cfg.nodes[lid]
        exits = []
        for (b_, lab) in L.succ:
            if lab in ('exhausted', 'F') and not (L.kind == 'while' and isinstance(L.ast.test, ast.Constant) and L.ast.test.value):
                exits.append((L, lab))
        for n_ in f.cfg.nodes:
            if lid in n_.loops and isinstance(n_.ast, ast.Break) and n_.loops[-1] == lid:
                exits.append((n_, 'break'))
        for (x_, lab) in exits:
            fine = False
            for (t, pos) in term_tests:
                empty_lab = 'F' if pos else 'T'
                if x_ is t and lab == empty_lab:
                    fine = True
                if lab == 'break' and any(b_ == x_.id and l2 == empty_lab for (b_, l2) in t.succ):
                    fine = True
            R.check(fine, q, f'shortening-exit:{x_.label()[:30]}:{lab}', 'the shortening loop is left only when no name is both alias and target',
                    f'the shortening loop can be left through `{x_.label()[:50]}` ({lab}) while some value is still a key: longer chains stay unresolved '
                    f'(X -> Y -> Z -> W leaves X -> Z)', where=f.where(x_))
    for (t, pos) in term_tests:
        # on the edge where the intersection is empty, control leaves the loop
        empty_lab = 'F' if pos else 'T'
        leaves = False
        for (b_, lab) in t.succ:
            if lab == empty_lab:
                tgt = f.cfg.nodes[b_]
                loop_id = t.id if t.kind == 'while' else t.loops[-1]
                leaves = (t.kind == 'while' and loop_id not in tgt.loops and b_ != t.id) or (isinstance(tgt.ast, ast.Break))
        R.check(leaves, q, 'shortening-terminates-when-disjoint', 'the shortening loop ends exactly when no name is both alias and target',
                f'`{t.label()[:70]}`: the loop does not leave when keys and values are disjoint', where=f.where(t))
        sv_ = st_in[t.id][tested_name[t.id]]
        ok_free = sv_ <= {FREE} and bool(sv_)
        R.check(ok_free, q, 'selfmaps-before-termination-test', 'self-maps are dropped before every evaluation of the termination test (the loop terminates on self-maps)',
                'the shortening loop tests `keys & values` without first dropping self-maps: an alias that points to itself (ALIASES = {"Y": "Y", ...}) keeps the loop running forever',
                where=f.where(t))
    loop_ids = {t.id if t.kind == 'while' else t.loops[-1] for (t, _p) in term_tests}
    subst_in_loop = [nid for nid, (_nm, op) in defs.items() if (has(op, 'subst') or op[0] == 'subst') and any(l in f.cfg.nodes[nid].loops for l in loop_ids)]
    R.check(bool(subst_in_loop), q, 'chain-shortening', 'chains are shortened by substituting values through the map until no value is a key',
            'chain shortening is not `aliases = {k: aliases.get(v, v) ...}` until keys and values are disjoint', where=f.fi.where)
    R.check(state_in[st[0].id] <= {FREE} and bool(state_in[st[0].id]), q, 'drop-self-maps', 'the stored map holds no self-map',
            f'self-maps are not dropped before the map is stored (possible states: {sorted(state_in[st[0].id])})', where=f.where(st[0]))
    R.check(any('init' in repr(op) for (_nm, op) in defs.values()), q, 'aliases-from-class',
            'the instance map starts as a copy of the class-level ALIASES', 'the alias map is not initialised from a copy of ALIASES', where=f.fi.where)
    # ambiguous preferences: a target already referenced by an earlier preferred name raises ValueError
    rs = f.raises('ValueError')
    ok = False
    for r in rs:
        for (a_, truth, _t) in f.guard_atoms(r.id):
            if truth and isinstance(a_, ast.Compare) and len(a_.ops) == 1 and isinstance(a_.ops[0], ast.In) and isinstance(a_.comparators[0], ast.Name) and r.loops:
                seen_nm = a_.comparators[0].id
                lp = f.cfg.nodes[r.loops[-1]]
                tv = text(lp.ast.target)
                tgt = f.etext(_t.id, a_.left, stop=(tv,))
                apps = [n_ for n_ in f.cfg.nodes if n_.ast is not None and n_.kind == 'stmt' and lp.id in n_.loops
                        and any(method_call(x, 'append') and text(x.func.value) == seen_nm and len(x.args) == 1 and f.etext(n_.id, x.args[0], stop=(tv,)) == tgt for x in ast.walk(n_.ast))]
                if tgt in (f'{AM}.get({tv}, {tv})', f"self.__dict__['aliases'].get({tv}, {tv})", f'self._resolve_alias({tv})') and apps:
                    ok = True
    R.check(len(rs) >= 1 and ok, q, 'ambiguous-preferences',
            'two preferred names for one variable are rejected', 'no ValueError for duplicate preferred names', where=f.fi.where)


def r3_no_storage(R) -> None:
    allowed_keys = {'aliases', 'preferred_names'}
    n = 0
    for q, fi in R.repo.functions.items():
        if not q.startswith(A + '.'):
            continue
        n += 1
        R.saw_function(fi)
        for x in ast.walk(fi.node):
            if isinstance(x, ast.Call) and isinstance(x.func, ast.Attribute) and x.func.attr in ('add_variable', 'add_attribute'):
                if fi.name == x.func.attr and is_super_call(x, x.func.attr) and x.args and text(x.args[0]).startswith(RES + '('):
                    continue    # the override that forwards the caller's own request, with the name resolved
                R.violation(q, 'alias-storage:' + text(x)[:50], f'`{text(x)[:60]}`: the alias mixin creates storage (aliases must not add series or attributes)',
                            where=f'{fi.module.relpath}:{x.lineno}')
            if isinstance(x, (ast.Assign, ast.AugAssign)):
                tg = x.targets if isinstance(x, ast.Assign) else [x.target]
                for t in tg:
                    ds = dict_slot(t)
                    if ds is not None and ds[0] == 'self':
                        k = ds[1]
                        if not (isinstance(k, ast.Constant) and k.value in allowed_keys):
                            R.violation(q, 'alias-dict-store:' + text(t)[:50], f'`{text(x)[:60]}` stores into __dict__ under a key other than aliases/preferred_names',
                                        where=f'{fi.module.relpath}:{x.lineno}')
                    if isinstance(t, ast.Attribute) and isinstance(t.value, ast.Name) and t.value.id == 'self':
                        R.violation(q, 'alias-attr-store:' + text(t), f'`{text(x)[:60]}` sets an attribute directly', where=f'{fi.module.relpath}:{x.lineno}')
    # nothing is remembered on the class: an alias map cached on the class is inherited by subclasses that declare their own ALIASES
    from fsa.effects import MUTATORS
    for q, fi in R.repo.functions.items():
        if not q.startswith(A + '.'):
            continue
        recv = fi.node.args.args[0].arg if fi.node.args.args else None
        for x in ast.walk(fi.node):
            if isinstance(x, (ast.Assign, ast.AugAssign, ast.AnnAssign)):
                tg = x.targets if isinstance(x, ast.Assign) else [x.target]
                for t in tg:
                    r_ = t
                    while isinstance(r_, (ast.Attribute, ast.Subscript)):
                        r_ = r_.value
                    cls_rooted = (isinstance(r_, ast.Name) and r_.id == 'cls') or text(t).startswith(('type(self).', 'self.__class__.', f'{A.split(".")[-1]}.'))
                    if cls_rooted and isinstance(t, (ast.Attribute, ast.Subscript)):
                        # what is kept is read back only from the class's own namespace (`vars(cls)`), and compared by identity
                        # with what it was worked out from before it is used: a validated per-class cache, not decided here
                        own_ns = any(isinstance(y, ast.Call) and dotted(y.func) == 'vars' and y.args and text(y.args[0]) in ('cls', 'type(self)', 'self.__class__')
                                     for y in ast.walk(fi.node))
                        ident = any(isinstance(y, ast.Compare) and len(y.ops) == 1 and isinstance(y.ops[0], (ast.Is, ast.IsNot)) and not is_const(y.comparators[0], None)
                                    for g_ in ast.walk(fi.node) if isinstance(g_, (ast.GeneratorExp, ast.ListComp)) for y in ast.walk(g_))
                        if own_ns and ident:
                            raise Unsupported(f'{q}: `{text(x)[:60]}` keeps a result on the class, read back through vars(cls) and re-checked by identity: a validated '
                                              f'per-class cache, whose completeness this rule does not decide')
                        from rules import memo as _memo
                        lab_ = _memo.owned(R.repo, x)
                        if lab_ is not None:
                            R.ok(q, f'`{text(x)[:50]}` fills the cache `{lab_}`: whether what it keeps can go stale is decided by rule C18.M')
                            continue
                        R.violation(q, 'alias-class-state:' + text(t)[:40], f'`{text(x)[:60]}` keeps state on the class: what one class (or instance) computed is seen by '
                                    f'subclasses and other instances (a subclass with its own ALIASES would inherit the parent\'s resolved map)', where=f'{fi.module.relpath}:{x.lineno}')
        # a method that changes one of its arguments in place, called with an object obtained from the base class or from
        # the container: the alias layer would modify state it does not own (e.g. the live variable index)
        params = [a.arg for a in fi.node.args.args[1:]]
        mutated = set()
        for x in ast.walk(fi.node):
            if isinstance(x, ast.Call) and isinstance(x.func, ast.Attribute) and x.func.attr in MUTATORS and isinstance(x.func.value, ast.Name) and x.func.value.id in params:
                mutated.add(x.func.value.id)
            if isinstance(x, ast.Subscript) and isinstance(x.ctx, (ast.Store, ast.Del)) and isinstance(x.value, ast.Name) and x.value.id in params:
                mutated.add(x.value.id)
        if mutated:
            for q2, fi2 in R.repo.functions.items():
                if not q2.startswith(A + '.'):
                    continue
                for c in ast.walk(fi2.node):
                    if is_self_call(c, fi.name):
                        for p_, a_ in zip(params, c.args):
                            owned = isinstance(a_, (ast.List, ast.Dict, ast.ListComp, ast.DictComp, ast.BinOp)) or is_call(a_, 'list', 'dict', 'sorted', 'copy.copy', 'copy.deepcopy')
                            if p_ in mutated and not owned:
                                R.violation(q2, f'alias-mutates-foreign:{fi.name}:{text(a_)[:30]}', f'`{text(c)[:60]}`: `{fi.name}()` changes its argument `{p_}` in place and receives '
                                            f'`{text(a_)[:40]}`, an object the alias layer does not own (e.g. the container\'s live index list): aliases would be added to it',
                                            where=f'{fi2.module.relpath}:{c.lineno}')
    # creating a variable *under an alias name* would give the alias storage of its own (unreachable by that name, since reads
    # resolve the alias, but counted in size / values / exports): the mixin must route add_variable through the alias map too
    aq = f'{A}.add_variable'
    if aq not in R.repo.functions:
        R.violation(A, 'add-variable-alias-unaware',
                    'AliasMixin does not override add_variable(): m.add_variable(<alias>, ...) is not the same operation on the underlying variable (which raises '
                    'DuplicateNameError) - it appends the alias to index/names and stores a separate array under it, which `m.<alias>` never reaches but `size`, `values` and '
                    'to_dataframe() include', where='fsic/extensions/common.py', mismatch=True)
    else:
        fa = Fn(R, aq)
        calls_ = [x for x in ast.walk(fa.fi.node) if is_super_call(x, 'add_variable')]
        nm_ = (fa.fi.params() + ['name', 'name'])[1]
        resolved = any(c_.args and text(c_.args[0]) == f'{RES}({nm_})' for c_ in calls_)
        rejected = any(fa.holds(r_.id, f'{nm_} in self.aliases') or fa.holds(r_.id, f'{RES}({nm_}) != {nm_}') for r_ in fa.raises())
        R.check(bool(calls_) and (resolved or rejected), aq, 'add-variable-alias-aware', 'add_variable through an alias acts on the underlying variable (or is rejected)',
                f'AliasMixin.add_variable neither resolves the name (`super().add_variable({RES}({nm_}), ...)`) nor rejects alias names', where=fa.fi.where)
    # the same within one method (a helper read in place): what a base-class method handed back, then changed in place
    for q, fi in R.repo.functions.items():
        if not q.startswith(A + '.'):
            continue
        f = Fn(R, q)
        for nd in f.cfg.nodes:
            if nd.ast is None or nd.kind != 'stmt':
                continue
            for x in ast.walk(nd.ast):
                tgt = None
                if isinstance(x, ast.Call) and isinstance(x.func, ast.Attribute) and x.func.attr in MUTATORS and isinstance(x.func.value, ast.Name) and x.func.value.id in f.lf.locals:
                    tgt = x.func.value.id
                elif isinstance(x, ast.Subscript) and isinstance(x.ctx, (ast.Store, ast.Del)) and isinstance(x.value, ast.Name) and x.value.id in f.lf.locals:
                    tgt = x.value.id
                if tgt is None:
                    continue
                for (_s, dv) in f.lf.values_reaching(nd.id, tgt):
                    if dv is not None and isinstance(dv, ast.Call) and isinstance(dv.func, ast.Attribute) and is_call(dv.func.value, 'super'):
                        m = dv.func.attr
                        shared = []
                        for q3, fi3 in R.repo.functions.items():
                            if q3.endswith('.' + m) and not q3.startswith(A + '.') and fi3.cls is not None:
                                for r_ in ast.walk(fi3.node):
                                    if isinstance(r_, ast.Return) and r_.value is not None and isinstance(r_.value, (ast.Subscript, ast.Attribute, ast.Name)):
                                        shared.append((q3, text(r_.value)))
                        if shared:
                            R.violation(q, f'alias-mutates-foreign:{m}:{tgt}',
                                        f'`{text(x)[:60]}` changes in place what `super().{m}()` returned, and {shared[0][0].split(".")[-2]}.{m}() returns `{shared[0][1]}` itself (not a copy): '
                                        f'the alias layer modifies state it does not own - the aliases are added to the container\'s live list of variables', where=f.where(nd))
    R.ok(A, f'no add_variable/add_attribute and no __dict__ store except aliases/preferred_names in {n} methods')
    R.expect(A, n, 8, 'methods of AliasMixin')


FUNNEL = {'__getattr__', '__setattr__', '__getitem__', '__setitem__'}


def r4_funnel(R) -> None:
    """Container/model operations reach the backing store only through the four
    dunders AliasMixin overrides, or with canonical names taken from index/names."""
    checked = 0
    for q in ('fsic.core.containers.VectorContainer.replace_values', 'fsic.core.containers.VectorContainer.values.setter',
              'fsic.core.interfaces.ModelInterface.values.setter', 'fsic.core.containers.VectorContainer.to_dataframe',
              'fsic.core.containers.VectorContainer.eval', 'fsic.core.containers.VectorContainer.reindex'):
        fi = R.repo.func(q)
        R.saw_function(fi)
        checked += 1
        # name variables coming from the caller (parameters / kwargs keys)
        caller_names: Set[str] = set()
        a = fi.node.args
        if a.kwarg:
            # `for k, v in new_values.items()` -> k is caller supplied
            for n in ast.walk(fi.node):
                if isinstance(n, ast.For) and text(n.iter) == f'{a.kwarg.arg}.items()':
                    caller_names |= {x.id for x in ast.walk(n.target) if isinstance(x, ast.Name)}
        for n in ast.walk(fi.node):
            if isinstance(n, ast.Subscript):
                ds = dict_slot(n)
                if ds is not None and is_underscore_key(ds[1]) is not None:
                    nm = is_underscore_key(ds[1])
                    if isinstance(nm, ast.Name) and nm.id in caller_names:
                        R.violation(q, 'bypass:' + text(n)[:50], f'`{text(n)[:60]}` addresses the backing store with a caller-supplied name, bypassing alias resolution',
                                    where=f'{fi.module.relpath}:{n.lineno}')
        if q.endswith('replace_values'):
            calls = [x for x in ast.walk(fi.node) if is_self_call(x, '__setitem__')]
            ok = len(calls) == 1 and len(calls[0].args) == 2
            R.check(ok, q, 'replace-through-setitem', 'bulk replacement goes through __setitem__ (alias-resolving)', 'replace_values does not call self.__setitem__(k, v)',
                    where=fi.where)
    R.expect('funnel', checked, 6, 'container operations audited')


def r5_export(R) -> None:
    q = f'{A}.to_dataframe'
    f = Fn(R, q)
    # the frame, by role: the local that receives the base export, whatever it is called
    DF = 'df'
    for n_ in f.cfg.nodes:
        if n_.kind == 'stmt' and isinstance(n_.ast, ast.Assign) and len(n_.ast.targets) == 1 and isinstance(n_.ast.targets[0], ast.Name) and is_super_call(n_.ast.value, 'to_dataframe'):
            DF = n_.ast.targets[0].id
    base = f.assigns_to(DF)
    ok = len(base) == 1 and is_super_call(base[0].ast.value, 'to_dataframe')
    R.check(ok, q, 'base-frame', 'the frame comes from the base export', f'`{DF}` is not super().to_dataframe(...)', where=f.fi.where)
    for r in f.returns():
        v = r.ast.value
        ok = text(v) == DF or (method_call(v, 'rename') and text(v.func.value) == DF and [k.arg for k in v.keywords] == ['columns'] and not v.args)
        R.check(ok, q, 'only-renames:' + text(v)[:50], 'every return is the base frame or a column rename of it',
                f'`return {text(v)[:60]}` changes, drops or duplicates data columns', where=f.where(r))
    others = [x for x in ast.walk(f.fi.node) if isinstance(x, ast.Call) and isinstance(x.func, ast.Attribute) and text(x.func.value) == DF and x.func.attr != 'rename']
    R.check(not others, q, 'no-other-frame-ops', 'no other operation on the frame', f'`{text(others[0])[:50] if others else ""}` operates on the frame', where=f.fi.where)
    st = [x for x in ast.walk(f.fi.node) if isinstance(x, (ast.Assign, ast.AugAssign)) and any(isinstance(t, ast.Subscript) and text(t.value) == DF for t in (x.targets if isinstance(x, ast.Assign) else [x.target]))]
    R.check(not st, q, 'no-column-writes', 'no column is assigned', 'a column of the frame is assigned', where=f.fi.where)
    rs = f.raises('ValueError')
    R.check(len(rs) == 1, q, 'ambiguous-export', 'several preferred names for one variable are rejected', 'no ValueError for ambiguous preferences', where=f.fi.where)
    # itertools.groupby only merges adjacent items: its input must be sorted by the same key - in every method of the mixin
    from fsa.flow import node_expr_roots
    sites = []
    for q2, fi2 in sorted(R.repo.functions.items()):
        if q2.startswith(A + '.') and fi2.parent is None and any(is_call(x, 'itertools.groupby', 'groupby') for x in ast.walk(fi2.node)):
            f2 = f if q2 == q else Fn(R, q2)
            for n2 in f2.cfg.nodes:
                if n2.ast is not None:
                    sites.append((f2, n2))
    for (f, n) in sites:
        for root in node_expr_roots(n):
            if isinstance(root, (ast.FunctionDef, ast.ClassDef)):
                continue
            for x in ast.walk(root):
                if is_call(x, 'itertools.groupby', 'groupby'):
                    src = x.args[0] if x.args else None
                    key = kwarg(x, 'key') or (x.args[1] if len(x.args) > 1 else None)
                    srt = None
                    if is_call(src, 'sorted'):
                        srt = src
                    elif isinstance(src, ast.Name):
                        vals = f.lf.values_reaching(n.id, src.id)
                        if len(vals) == 1 and vals[0][1] is not None and is_call(vals[0][1], 'sorted'):
                            srt = vals[0][1]
                    skey = (kwarg(srt, 'key') if srt is not None else None)
                    ok = srt is not None and key is not None and skey is not None and text(skey) == text(key)
                    R.check(ok, f.q, 'groupby-sorted:' + (text(src)[:40] if src is not None else '?'), 'aliases are grouped by target after sorting by target',
                            f'`{text(x)[:70]}` groups an input that is not sorted by the same key: aliases of one variable that are not adjacent in ALIASES fall into '
                            f'separate groups, so a later group overrides the declared preferred name', where=f.where(n))
    f = Fn(R, q)
    g = [(text(a), truth) for (a, truth, _t) in f.guard_atoms(f.returns()[0].id)] if f.returns() else []
    R.check(('use_aliases', False) in g or ('not use_aliases', True) in g, q, 'default-unchanged', 'without use_aliases the frame is returned unchanged',
            'the first return is not the `not use_aliases` shortcut', where=f.fi.where)


def run(R) -> None:
    R.explanation = (
        'C18: the four AliasMixin dunders pass the name through _resolve_alias and everything else (index part, value) unchanged to super(), '
        'returning the base result; constructor keywords are re-keyed after the alias map exists; chains shortened to a fixpoint, self-maps '
        'dropped; the mixin creates no storage (no add_variable/add_attribute, no __dict__ store but aliases/preferred_names); bulk '
        'operations reach the backing store through the overridden dunders or with canonical names only; to_dataframe returns the base '
        'frame or a column rename of it. Does not decide equality of operation histories nor cyclic alias maps.'
    )
    R.rule('C18.R1', lambda: r1_dunders(R))
    R.rule('C18.R2', lambda: r2_constructor(R))
    R.rule('C18.R3', lambda: r3_no_storage(R))
    R.rule('C18.R4', lambda: r4_funnel(R))
    R.rule('C18.R5', lambda: r5_export(R))


def run_thorough(R) -> None:
    from rules.common import thorough_compositions
    thorough_compositions(R, 'C18.T1', ['__getattr__', '__setattr__', '__getitem__', '__setitem__', 'to_dataframe'])
