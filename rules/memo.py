"""Caches: tables, slots and decorators that keep a computed value in order to hand it out again.

A cache turns a function of its inputs into a function of its inputs *and of the calls made before*.  Two things keep it a function
of its inputs only, and both are visible in the shape of the code:

  complete key     everything the kept value was computed from is part of what it is looked up by (the key, or a tag stored
                   with the value and compared on the way out);
  private object   the kept object itself is not handed to anyone who may change or keep it (it is immutable, or copied on the
                   way out, or its users only read it).

This module finds the caches of the package as written (the source before any reading-in-place), reads the lookup/compute/
store protocol around each, and decides both questions - or says that the protocol is not one it reads.

    findings(repo)  ->  [Finding]     one per cache and question: 'incomplete-key' | 'shared-result' | 'sound' | 'unread'

The rules of a property report the findings that lie on its code paths (rules.memo.report) and stop treating the stores of a
cache found sound as effects (rules.memo.sound_tables).
"""

from __future__ import annotations

import ast
import copy as _copy
from dataclasses import dataclass, field
from typing import Dict, Iterable, List, Optional, Set, Tuple

from fsa.cfg import CFG
from fsa.flow import PARAM, LocalFlow, guards
from fsa.source import Repo, text

TABLE_CTORS = ('dict', 'set', 'OrderedDict', 'collections.OrderedDict', 'defaultdict', 'collections.defaultdict', 'WeakKeyDictionary', 'weakref.WeakKeyDictionary',
               'WeakValueDictionary', 'weakref.WeakValueDictionary')
LRU_DECORATORS = ('lru_cache', 'functools.lru_cache', 'cache', 'functools.cache')
# callables whose result is determined by (the values of) their arguments
PURE_BUILTINS = {'len', 'tuple', 'list', 'dict', 'set', 'frozenset', 'str', 'int', 'float', 'bool', 'repr', 'sorted', 'reversed', 'enumerate', 'zip', 'range', 'min', 'max',
                 'sum', 'abs', 'any', 'all', 'isinstance', 'issubclass', 'type', 'hasattr', 'getattr', 'callable', 'format', 'map', 'filter', 'iter', 'next', 'hash', 'divmod',
                 'round', 'ord', 'chr', 'bytes', 'compile', 'slice', 'Counter', 'print'}
PURE_MODULES = {'np', 'numpy', 're', 'copy', 'math', 'itertools', 'functools', 'collections', 'operator', 'textwrap', 'ast', 'keyword', 'string', 'warnings', 'enum', 'typing',
                'pd', 'pandas', 'difflib', 'weakref'}
# wrappers whose result determines their argument (so a key made of the wrapped value is as good as the value)
INJECTIVE = {'tuple', 'list', 'dict', 'frozenset', 'copy.copy', 'copy.deepcopy', 'deepcopy', 'str', 'repr', 'id_of_value'}
COPIES_SHALLOW = {'list', 'dict', 'set', 'tuple', 'frozenset', 'sorted', 'copy.copy'}
COPIES_DEEP = {'copy.deepcopy', 'deepcopy'}
IMMUTABLE_ANNOT = {'str', 'int', 'float', 'bool', 'bytes', 'complex', 'Symbol', 'Term', 'Type', 'Hashable', 'None', 'type', 'Type[Any]', 'Match', 'Match[str]', 'Callable'}
MUTATORS = {'append', 'extend', 'insert', 'update', 'add', 'pop', 'popitem', 'remove', 'discard', 'clear', 'setdefault', 'sort', 'reverse', '__setitem__', '__delitem__'}


class Unread(Exception):
    """The protocol around a cache is not one this module reads."""


@dataclass
class RawFn:
    qual: str
    node: ast.FunctionDef
    modname: str
    relpath: str
    cls: Optional[ast.ClassDef]
    parent: Optional['RawFn']
    _cfg: Optional[CFG] = None
    _lf: Optional[LocalFlow] = None
    _guards: Dict[int, List[Tuple[int, str]]] = field(default_factory=dict)

    @property
    def name(self) -> str:
        return self.node.name

    def params(self) -> List[str]:
        a = self.node.args
        out = [x.arg for x in a.posonlyargs + a.args + a.kwonlyargs]
        if a.vararg:
            out.append(a.vararg.arg)
        if a.kwarg:
            out.append(a.kwarg.arg)
        return out

    def annotation(self, p: str) -> Optional[str]:
        a = self.node.args
        for x in a.posonlyargs + a.args + a.kwonlyargs:
            if x.arg == p and x.annotation is not None:
                return text(x.annotation)
        return None

    @property
    def cfg(self) -> CFG:
        if self._cfg is None:
            self._cfg = CFG(self.node)
        return self._cfg

    @property
    def lf(self) -> LocalFlow:
        if self._lf is None:
            self._lf = LocalFlow(self.cfg, self.params())
        return self._lf

    def guards_of(self, nid: int) -> List[Tuple[int, str]]:
        if nid not in self._guards:
            self._guards[nid] = guards(self.cfg, nid)
        return self._guards[nid]

    def is_method(self) -> bool:
        return self.cls is not None and self.parent is None and not any(text(d) == 'staticmethod' for d in self.node.decorator_list)


@dataclass
class Finding:
    kind: str            # 'incomplete-key' | 'shared-result' | 'sound' | 'unread'
    cache: str           # name of the table / slot / decorated function
    func: str            # qualified name of the function holding the protocol
    relpath: str
    line: int
    what: str
    users: Tuple[str, ...] = ()      # qualified names of the functions that use the cache


def own_nodes(fnode: ast.AST) -> Iterable[ast.AST]:
    stack = list(ast.iter_child_nodes(fnode))
    while stack:
        n = stack.pop()
        yield n
        if isinstance(n, (ast.FunctionDef, ast.AsyncFunctionDef, ast.ClassDef, ast.Lambda)):
            continue
        stack.extend(ast.iter_child_nodes(n))


def dotted(e: ast.AST) -> Optional[str]:
    if isinstance(e, ast.Name):
        return e.id
    if isinstance(e, ast.Attribute):
        b = dotted(e.value)
        return None if b is None else f'{b}.{e.attr}'
    return None


class World:
    """The package as written: functions, module-level bindings, class-level bindings."""

    def __init__(self, repo: Repo) -> None:
        self.repo = repo
        self.trees: Dict[str, ast.Module] = {}
        self.fns: Dict[str, RawFn] = {}
        self.by_name: Dict[str, List[RawFn]] = {}
        self.globals: Dict[str, Dict[str, ast.AST]] = {}        # module -> name -> binding statement
        self.method_names: Set[str] = set()
        self.class_tables: Dict[str, Set[str]] = {}              # class name -> names of class-level tables
        self.namedtuples: Set[str] = set()
        self.class_attrs: Set[str] = set()
        self.properties: Dict[str, List[RawFn]] = {}
        self.class_names: Set[str] = set()
        for name, mod in repo.modules.items():
            tree = ast.parse(mod.src)
            self.trees[name] = tree
            g: Dict[str, ast.AST] = {}
            for st in tree.body:
                if isinstance(st, (ast.FunctionDef, ast.AsyncFunctionDef, ast.ClassDef)):
                    g[st.name] = st
                elif isinstance(st, ast.Assign):
                    for t in st.targets:
                        if isinstance(t, ast.Name):
                            g[t.id] = st
                elif isinstance(st, ast.AnnAssign) and isinstance(st.target, ast.Name):
                    g[st.target.id] = st
                elif isinstance(st, (ast.Import, ast.ImportFrom)):
                    for al in st.names:
                        g[(al.asname or al.name).split('.')[0]] = st
                elif isinstance(st, (ast.If, ast.Try)):
                    for x in ast.walk(st):
                        if isinstance(x, (ast.Import, ast.ImportFrom)):
                            for al in x.names:
                                g.setdefault((al.asname or al.name).split('.')[0], x)
            self.globals[name] = g
            self._index(tree.body, name, name, mod.relpath, None, None)

    def _index(self, body, prefix, modname, relpath, cls, parent) -> None:
        for st in body:
            if isinstance(st, (ast.FunctionDef, ast.AsyncFunctionDef)):
                f = RawFn(f'{prefix}.{st.name}', st, modname, relpath, cls, parent)
                self.fns[f.qual] = f
                self.by_name.setdefault(st.name, []).append(f)
                if cls is not None and parent is None:
                    if any(text(dc) in ('property', 'functools.cached_property', 'cached_property') for dc in st.decorator_list):
                        self.properties.setdefault(st.name, []).append(f)
                    else:
                        self.method_names.add(st.name)
                self._index(st.body, f'{prefix}.{st.name}.<locals>', modname, relpath, cls, f)
            elif isinstance(st, ast.ClassDef):
                self.class_names.add(st.name)
                if any(text(b) in ('NamedTuple', 'typing.NamedTuple', 'enum.Enum', 'Enum') for b in st.bases):
                    self.namedtuples.add(st.name)
                for s2 in st.body:
                    tgt, val = None, None
                    if isinstance(s2, ast.Assign) and len(s2.targets) == 1 and isinstance(s2.targets[0], ast.Name):
                        tgt, val = s2.targets[0].id, s2.value
                    elif isinstance(s2, ast.AnnAssign) and isinstance(s2.target, ast.Name):
                        tgt, val = s2.target.id, s2.value
                    if tgt is not None:
                        self.class_attrs.add(tgt)
                    if tgt is not None and val is not None and is_table_ctor(val):
                        self.class_tables.setdefault(st.name, set()).add(tgt)
                self._index(st.body, f'{prefix}.{st.name}', modname, relpath, st, None)
            elif isinstance(st, (ast.If, ast.Try, ast.With, ast.For, ast.While)):
                for fld in ('body', 'orelse', 'finalbody'):
                    self._index(getattr(st, fld, []) or [], prefix, modname, relpath, cls, parent)
                for h in getattr(st, 'handlers', []) or []:
                    self._index(h.body, prefix, modname, relpath, cls, parent)

    # -- what a module-level name is ------------------------------------------------------------------------------------
    def global_kind(self, modname: str, name: str) -> str:
        """'callable' (function, class, module), 'const' (bound once to something that cannot change), 'table' (a dict/set/list
        that functions may fill), 'builtin', or 'unknown'."""
        import builtins
        st = self.globals.get(modname, {}).get(name)
        if st is None:
            return 'builtin' if hasattr(builtins, name) else 'unknown'
        if isinstance(st, (ast.FunctionDef, ast.AsyncFunctionDef, ast.ClassDef, ast.Import)):
            return 'callable'
        if isinstance(st, ast.ImportFrom):
            # a name imported from a sibling module: look there
            src = (st.module or '')
            for al in st.names:
                if (al.asname or al.name) == name:
                    cand = [m for m in self.globals if m == src or m.endswith('.' + src) or (st.level and m.endswith('.' + src.split('.')[-1]))]
                    for m in cand:
                        if al.name in self.globals[m] and m != modname:
                            return self.global_kind(m, al.name)
            return 'callable'
        v = getattr(st, 'value', None)
        if v is None:
            return 'unknown'
        if is_table_ctor(v) or isinstance(v, (ast.Dict, ast.List, ast.Set, ast.ListComp, ast.DictComp, ast.SetComp)):
            return 'table'
        return 'const'

    def tables(self) -> List[Tuple[str, str, ast.AST]]:
        out = []
        for m, g in self.globals.items():
            for n, st in g.items():
                if self.global_kind(m, n) == 'table' and isinstance(st, (ast.Assign, ast.AnnAssign)):
                    out.append((m, n, st))
        return out

    def resolve_call(self, f: RawFn, call: ast.Call) -> Optional[RawFn]:
        """The package function a call refers to, when that is unambiguous: a nested / module-level function by its bare name,
        a method of the same class (or of any class, if only one has that name) through self/cls."""
        fn = call.func
        if isinstance(fn, ast.Name):
            # nested in this function or an enclosing one
            p = f
            while p is not None:
                q = f'{p.qual}.<locals>.{fn.id}'
                if q in self.fns:
                    return self.fns[q]
                p = p.parent
            q = f'{f.modname}.{fn.id}'
            if q in self.fns:
                return self.fns[q]
            cands = [g for g in self.by_name.get(fn.id, []) if g.cls is None and g.parent is None]
            if len(cands) == 1 and self.global_kind(f.modname, fn.id) == 'callable':
                return cands[0]
            return None
        if isinstance(fn, ast.Attribute) and isinstance(fn.value, ast.Name) and fn.value.id in ('self', 'cls'):
            cands = [g for g in self.by_name.get(fn.attr, []) if g.cls is not None and g.parent is None]
            same = [g for g in cands if f.cls is not None and g.cls is f.cls]
            if same:
                return same[0]
            if len(cands) == 1:
                return cands[0]
        return None


def is_table_ctor(v: ast.AST) -> bool:
    if isinstance(v, (ast.Dict, ast.Set, ast.List)) and not getattr(v, 'keys', getattr(v, 'elts', [])):
        return True
    if isinstance(v, ast.Call) and dotted(v.func) in TABLE_CTORS:
        return True
    return False


# ---------------------------------------------------------------------------------------------------------------------------
# operations on a table inside one function
# ---------------------------------------------------------------------------------------------------------------------------
@dataclass
class Op:
    kind: str                # 'store' | 'lookup'
    form: str                # 'T[K]=V' | 'T.add(K)' | 'T.setdefault' | 'T.get(K)' | 'T[K]' | 'K in T'
    key: Optional[ast.AST]
    value: Optional[ast.AST]
    node: ast.AST            # the expression / statement
    stmt: ast.stmt


def table_ops(f: RawFn, is_table) -> Tuple[List[Op], List[ast.AST]]:
    """Operations of `f` on the table(s) that `is_table(expr)` recognises, and the uses that are none of the known operations."""
    par: Dict[int, ast.AST] = {}
    for n in ast.walk(f.node):
        for c in ast.iter_child_nodes(n):
            par[id(c)] = n

    def stmt_of(x: ast.AST) -> ast.stmt:
        while not isinstance(x, ast.stmt):
            x = par[id(x)]
        return x

    ops: List[Op] = []
    other: List[ast.AST] = []
    for x in own_nodes(f.node):
        if not is_table(x):
            continue
        p = par.get(id(x))
        if isinstance(p, ast.Subscript) and p.value is x:
            if isinstance(p.ctx, ast.Store):
                st = stmt_of(p)
                v = st.value if isinstance(st, (ast.Assign, ast.AnnAssign)) else None
                ops.append(Op('store', 'T[K]=V', p.slice, v, p, st))
            elif isinstance(p.ctx, ast.Load):
                ops.append(Op('lookup', 'T[K]', p.slice, None, p, stmt_of(p)))
            else:
                other.append(p)
        elif isinstance(p, ast.Attribute) and p.value is x and isinstance(par.get(id(p)), ast.Call) and par[id(p)].func is p:
            c = par[id(p)]
            if p.attr == 'get' and 1 <= len(c.args) <= 2:
                ops.append(Op('lookup', 'T.get(K)', c.args[0], None, c, stmt_of(c)))
            elif p.attr == 'add' and len(c.args) == 1:
                ops.append(Op('store', 'T.add(K)', c.args[0], None, c, stmt_of(c)))
            elif p.attr == 'setdefault' and len(c.args) == 2:
                ops.append(Op('store', 'T.setdefault', c.args[0], c.args[1], c, stmt_of(c)))
                ops.append(Op('lookup', 'T.setdefault', c.args[0], None, c, stmt_of(c)))
            elif p.attr in ('__contains__',) and len(c.args) == 1:
                ops.append(Op('lookup', 'K in T', c.args[0], None, c, stmt_of(c)))
            else:
                other.append(c)
        elif isinstance(p, ast.Compare) and len(p.ops) == 1 and isinstance(p.ops[0], (ast.In, ast.NotIn)) and p.comparators[0] is x:
            ops.append(Op('lookup', 'K in T', p.left, None, p, stmt_of(p)))
        elif isinstance(p, (ast.Assign, ast.AnnAssign)) and isinstance(x.ctx if hasattr(x, 'ctx') else None, ast.Store):
            continue
        elif isinstance(p, ast.Global):
            continue
        else:
            other.append(p if p is not None else x)
    return ops, other


# ---------------------------------------------------------------------------------------------------------------------------
# reading one memo protocol
# ---------------------------------------------------------------------------------------------------------------------------
def _dnf(cond: ast.AST, truth: bool) -> List[List[Tuple[ast.AST, bool]]]:
    """`cond` having truth value `truth`, as a disjunction of conjunctions of (atom, truth)."""
    if isinstance(cond, ast.UnaryOp) and isinstance(cond.op, ast.Not):
        return _dnf(cond.operand, not truth)
    if isinstance(cond, ast.BoolOp):
        is_or = isinstance(cond.op, ast.Or) == truth
        parts = [_dnf(v, truth) for v in cond.values]
        if is_or:
            return [c for p in parts for c in p]
        out: List[List[Tuple[ast.AST, bool]]] = [[]]
        for p in parts:
            out = [a + b for a in out for b in p]
            if len(out) > 64:
                raise Unread('condition too large')
        return out
    return [[(cond, truth)]]


class Protocol:
    """One lookup / compute / store protocol: function `f`, table text `T`, key text, the controlling test."""

    def __init__(self, w: World, f: RawFn, tname: str, ops: List[Op], lifetime: str) -> None:
        self.w, self.f, self.tname, self.ops, self.lifetime = w, f, tname, ops, lifetime
        self.stores = [o for o in ops if o.kind == 'store']
        self.lookups = [o for o in ops if o.kind == 'lookup']
        self.key_texts: Set[str] = set()
        self.material: List[ast.AST] = []       # key and tag expressions, raw and read through
        self.hit_names: Set[str] = set()        # locals that hold the looked-up entry
        self.region: Set[int] = set()
        self.test: Optional[Tuple[int, str]] = None
        self.store_node = None

    # .. helpers ...........................................................................................................
    def node_of(self, stmt: ast.stmt):
        n = self.f.cfg.by_ast.get(id(stmt))
        if n is not None and not hasattr(n, 'id'):
            n = self.f.cfg.nodes[n]
        if n is None:
            # the statement is a compound one (test expression of an if/while): find the node whose ast is the test
            for c in self.f.cfg.nodes:
                if c.ast is not None and (c.ast is stmt or c.ast is getattr(stmt, 'test', None) or (c.kind in ('for', 'with') and c.ast is stmt)):
                    return c
            raise Unread(f'no flow-graph node for `{text(stmt)[:60]}`')
        return n

    def read_through(self, nid: int, e: ast.AST, depth: int = 5, inside: Optional[Set[int]] = None) -> ast.AST:
        """`e` with locals that have one reaching definition at `nid`, bound to an expression, replaced by it."""
        if depth <= 0:
            return e
        lf = self.f.lf
        mapping: Dict[str, ast.AST] = {}
        for x in ast.walk(e):
            if isinstance(x, ast.Name) and isinstance(x.ctx, ast.Load) and x.id in lf.locals and x.id not in mapping:
                vals = lf.values_reaching(nid, x.id)
                if len(vals) == 1 and vals[0][0] != PARAM and vals[0][1] is not None:
                    site, v = vals[0]
                    if any(isinstance(y, (ast.Yield, ast.Await, ast.NamedExpr)) for y in ast.walk(v)):
                        continue
                    stable = all(lf.defs_reaching(site, y.id) == lf.defs_reaching(nid, y.id) for y in ast.walk(v)
                                 if isinstance(y, ast.Name) and isinstance(y.ctx, ast.Load) and y.id in lf.locals and y.id != x.id)
                    if stable:
                        inner = self.read_through(site, v, depth - 1)
                        if not any(isinstance(y, ast.Name) and y.id == x.id and isinstance(y.ctx, ast.Load) for y in ast.walk(inner)):
                            mapping[x.id] = inner
        if not mapping:
            return e

        class S(ast.NodeTransformer):
            def visit_Name(self, node):
                if isinstance(node.ctx, ast.Load) and node.id in mapping:
                    return _copy.deepcopy(mapping[node.id])
                return node

            def visit_Lambda(self, node):
                return node

        return ast.fix_missing_locations(S().visit(_copy.deepcopy(e)))

    # .. reading ...........................................................................................................
    def read(self) -> None:
        f = self.f
        if not self.stores or not self.lookups:
            raise Unread('the table is not both looked up and filled here')
        # one key
        for o in self.ops:
            n = self.node_of(o.stmt)
            self.key_texts.add(text(self.read_through(n.id, o.key)))
        if len(self.key_texts) != 1:
            raise Unread(f'looked up and filled under different keys: {sorted(self.key_texts)}')
        # locals holding the entry
        for o in self.lookups:
            if isinstance(o.stmt, (ast.Assign, ast.AnnAssign)) and o.stmt.value is o.node:
                t = o.stmt.targets[0] if isinstance(o.stmt, ast.Assign) else o.stmt.target
                if isinstance(t, ast.Name):
                    self.hit_names.add(t.id)
        # the store that is made on a miss, and the test that says "miss"
        chosen = None
        for o in self.stores:
            sn = self.node_of(o.stmt)
            for (tid, lab) in reversed(f.guards_of(sn.id)):
                tn = f.cfg.nodes[tid]
                if tn.kind != 'test' or lab not in ('T', 'F'):
                    continue
                try:
                    dnf = _dnf(tn.ast, lab == 'T')
                except Unread:
                    continue
                kinds = [self._disjunct_kind(tn.id, conj) for conj in dnf]
                if any(k[0] in ('miss', 'tag') for k in kinds):
                    chosen = (o, sn, tid, lab, kinds)
                    break
            if chosen:
                break
        if chosen is None:
            # try: return T[K]  except KeyError: ... T[K] = V
            chosen = self._try_form()
        if chosen is None:
            raise Unread('no store of the table is made under a test of whether the entry is there')
        o, sn, tid, lab, kinds = chosen
        self.store, self.store_node, self.test = o, sn, (tid, lab)
        self.tags: List[Tuple[ast.AST, str]] = [(k[1], k[2]) for k in kinds if k[0] == 'tag']
        # region: what runs on a miss and leads to the store
        for n in f.cfg.nodes:
            if n.id == sn.id or (n.ast is not None and (tid, lab) in f.guards_of(n.id) and f.cfg.reaches(n.id, sn.id, avoid=[tid])):
                self.region.add(n.id)
        # key material
        kn = self.node_of(self.lookups[0].stmt)
        for o2 in self.ops:
            self._add_material(o2.key, self.node_of(o2.stmt).id)
        for (e, _how) in self.tags:
            self._add_material(e, tid)

    def _add_material(self, e: ast.AST, nid: int) -> None:
        for x in (e, self.read_through(nid, e)):
            self.material.append(x)
            if isinstance(x, ast.Tuple):
                self.material.extend(x.elts)

    def _is_hit(self, e: ast.AST, nid: int) -> Optional[str]:
        """`e` denotes the looked-up entry ('whole') or a part of it ('part'), else None."""
        def base(x):
            if isinstance(x, ast.Name) and x.id in self.hit_names:
                return True
            if isinstance(x, ast.Subscript) and text(x.value) == self.tname and text(self.read_through(nid, x.slice)) in self.key_texts:
                return True
            if isinstance(x, ast.Call) and isinstance(x.func, ast.Attribute) and x.func.attr == 'get' and text(x.func.value) == self.tname:
                return True
            return False
        if base(e):
            return 'whole'
        if isinstance(e, (ast.Subscript, ast.Attribute)) and base(e.value):
            return 'part'
        return None

    def _disjunct_kind(self, nid: int, conj: List[Tuple[ast.AST, bool]]):
        """('miss',) / ('tag', expr, how) / ('other',) for one way the controlling test comes out as it does."""
        for (a, truth) in conj:
            # K in T / K not in T
            if isinstance(a, ast.Compare) and len(a.ops) == 1 and isinstance(a.ops[0], (ast.In, ast.NotIn)) and text(a.comparators[0]) == self.tname:
                if isinstance(a.ops[0], ast.NotIn) == truth and text(self.read_through(nid, a.left)) in self.key_texts:
                    return ('miss',)
            # h is None / not h
            if isinstance(a, ast.Compare) and len(a.ops) == 1 and isinstance(a.ops[0], (ast.Is, ast.IsNot)) and isinstance(a.comparators[0], ast.Constant) \
                    and a.comparators[0].value is None and self._is_hit(a.left, nid) == 'whole':
                if isinstance(a.ops[0], ast.Is) == truth:
                    return ('miss',)
            if self._is_hit(a, nid) == 'whole' and not truth:
                return ('miss',)
            # h[i] != E  /  h != E  /  h[i] is not E
            if isinstance(a, ast.Compare) and len(a.ops) == 1 and isinstance(a.ops[0], (ast.Eq, ast.NotEq, ast.Is, ast.IsNot)):
                differs = isinstance(a.ops[0], (ast.NotEq, ast.IsNot)) == truth
                how = 'identity' if isinstance(a.ops[0], (ast.Is, ast.IsNot)) else 'value'
                for (l, r) in ((a.left, a.comparators[0]), (a.comparators[0], a.left)):
                    if self._is_hit(l, nid) is not None and self._is_hit(r, nid) is None and not (isinstance(r, ast.Constant) and r.value is None):
                        if differs:
                            return ('tag', r, how)
        return ('other',)

    def _try_form(self):
        f = self.f
        par: Dict[int, ast.AST] = {}
        for n in ast.walk(f.node):
            for c in ast.iter_child_nodes(n):
                par[id(c)] = n
        for o in self.stores:
            x = o.stmt
            while id(x) in par and not isinstance(x, ast.ExceptHandler):
                x = par[id(x)]
            if isinstance(x, ast.ExceptHandler) and x.type is not None and text(x.type) in ('KeyError', 'LookupError', 'AttributeError'):
                tr = par[id(x)]
                if isinstance(tr, ast.Try) and any(l.stmt in list(ast.walk(tr)) and l.form == 'T[K]' and not any(l.stmt in list(ast.walk(h)) for h in tr.handlers)
                                                   for l in self.lookups):
                    sn = self.node_of(o.stmt)
                    hn = [n for n in f.cfg.nodes if n.kind == 'except' and n.ast is x]
                    if hn:
                        # the region is the handler: nodes reachable from its head that reach the store
                        self._handler_head = hn[0].id
                        return (o, sn, hn[0].id, 'handler', [('miss',)])
        return None


# ---------------------------------------------------------------------------------------------------------------------------
# what an expression depends on, and whether the key material covers it
# ---------------------------------------------------------------------------------------------------------------------------
class Coverage:
    def __init__(self, w: World, f: RawFn, material: List[ast.AST], lifetime: str, hit=None, exclude_tables: Iterable[str] = (), fixed: Iterable[str] = ()) -> None:
        self.w, self.f, self.lifetime = w, f, lifetime
        self.texts: Set[str] = set()
        for m in material:
            self._add(m)
        self.hit = hit or (lambda e: None)
        self.exclude_tables = set(exclude_tables)
        self.fixed = set(fixed)
        self.unknown: List[str] = []
        self.match_objects: Set[str] = set()
        self._seen_calls: Set[Tuple[str, int]] = set()

    def _add(self, m: ast.AST) -> None:
        self.texts.add(text(m))
        # an injective image of x is as good as x
        if isinstance(m, ast.Call) and dotted(m.func) in INJECTIVE and len(m.args) == 1 and not m.keywords:
            self._add(m.args[0])
        if isinstance(m, ast.Call) and isinstance(m.func, ast.Attribute) and m.func.attr in ('items', 'copy') and not m.args:
            self._add(m.func.value)
        if isinstance(m, ast.Call) and dotted(m.func) == 'sorted' and len(m.args) == 1 and isinstance(m.args[0], ast.Call) and isinstance(m.args[0].func, ast.Attribute) \
                and m.args[0].func.attr == 'items':
            self._add(m.args[0].func.value)
        if isinstance(m, ast.Compare) and len(m.ops) == 1 and isinstance(m.ops[0], (ast.Eq, ast.NotEq, ast.Is, ast.IsNot)):
            flip = {ast.Eq: ast.NotEq, ast.NotEq: ast.Eq, ast.Is: ast.IsNot, ast.IsNot: ast.Is}[type(m.ops[0])]
            self.texts.add(text(ast.Compare(left=m.left, ops=[flip()], comparators=m.comparators)))
        if isinstance(m, ast.Tuple):
            for e in m.elts:
                self._add(e)

    # .. immutability of what a name refers to .............................................................................
    def immutable_root(self, name: str, f: Optional[RawFn] = None) -> bool:
        f = f or self.f
        ann = f.annotation(name)
        if ann is None:
            return False
        return _annot_immutable(ann, self.w)

    # .. the leaves of `e` that the key material does not determine .......................................................
    def uncovered(self, e: ast.AST, bound: Set[str] = frozenset(), f: Optional[RawFn] = None, env: Optional[Dict[str, ast.AST]] = None, depth: int = 0) -> List[str]:
        f = f or self.f
        if e is None:
            return []
        t = text(e)
        if depth == 0 and t in self.texts:
            return []
        if isinstance(e, ast.Constant):
            return []
        if self.hit(e) is not None and depth == 0:
            return []
        if isinstance(e, ast.Name):
            return self._name(e.id, bound, f, env, depth)
        if isinstance(e, ast.Attribute) and e.attr in self.w.properties and not (isinstance(e.value, ast.Name) and e.value.id in PURE_MODULES):
            # reading a property runs its getter
            root = (dotted(e.value) or '').split('.')[0]
            if env is not None and root in env and depth > 0:
                return self.uncovered(_rebase(e, root, env[root]), set(), self.f, None, 0)
            getters = self.w.properties[e.attr]
            if isinstance(e.value, ast.Name) and e.value.id in f.params() and f.annotation(e.value.id) is not None:
                cname = f.annotation(e.value.id).strip("'\"").split('[')[0].split('.')[-1]
                if cname in self.w.class_names:
                    getters = [g for g in getters if g.cls is not None and g.cls.name == cname]
            if getters:
                out = []
                for g in getters:
                    out += self._into(g, ast.Call(func=e, args=[], keywords=[]), bound, f, env, depth)
                return out + self.uncovered(e.value, bound, f, env, depth)
        if isinstance(e, ast.Attribute):
            d = dotted(e)
            root = d.split('.')[0] if d else None
            if d is not None and root not in bound:
                if root in ('self', 'cls') and f.is_method():
                    if env is not None and root in env:
                        return self.uncovered(_rebase(e, root, env[root]), bound, self.f, None, 0) if depth else []
                    attr = d.split('.')[1]
                    if attr in self.w.method_names and len(d.split('.')) == 2:
                        return []                                   # a bound method: the receiver is what matters, below
                    if attr in self.w.class_attrs and self.texts & {'self', 'cls', 'type(self)', 'self.__class__'} and not getattr(self, 'inherited_lookup', False):
                        return []                                   # a class-level attribute, and the key says which class
                    if root == 'cls' and attr.startswith('__') and attr.endswith('__') and 'cls' in self.texts:
                        return []                                   # part of the definition of the class the key names
                    if self.lifetime == 'local':
                        return []
                    return [d]
                if root in PURE_MODULES or self.w.global_kind(f.modname, root) == 'callable' and root not in f.lf.locals:
                    return []
                if env is not None and root in env:
                    return self.uncovered(_rebase(e, root, env[root]), bound, self.f, None, 0)
                if root in f.params() and root not in bound:
                    if self.immutable_root(root, f) and depth == 0 and root in self.texts:
                        return []
                    if (f.annotation(root) or '').startswith('Match'):
                        self.match_objects.add(root)
                        return []
                    return [d] if depth == 0 else [f'{d} (in {f.name})']
                if f is self.f and root in f.lf.locals and root not in bound:
                    return [d] if root not in self.texts else []        # a part of a local that is an input as it stands (a loop variable)
            return self.uncovered(e.value, bound, f, env, depth)
        if isinstance(e, ast.Subscript):
            # self.__dict__['x'] is the attribute x
            if text(e.value) == 'self.__dict__' and isinstance(e.slice, ast.Constant):
                if env is not None and 'self' in env:
                    return self.uncovered(_rebase(e, 'self', env['self']), bound, self.f, None, 0)
                return [] if self.lifetime == 'local' else [t]
            return self.uncovered(e.value, bound, f, env, depth) + self.uncovered(e.slice, bound, f, env, depth)
        if isinstance(e, ast.Call):
            return self._call(e, bound, f, env, depth)
        if isinstance(e, (ast.ListComp, ast.SetComp, ast.GeneratorExp, ast.DictComp)):
            b = set(bound)
            out: List[str] = []
            for g in e.generators:
                out += self.uncovered(g.iter, b, f, env, depth)
                b |= {x.id for x in ast.walk(g.target) if isinstance(x, ast.Name)}
                for c in g.ifs:
                    out += self.uncovered(c, b, f, env, depth)
            for part in ([e.key, e.value] if isinstance(e, ast.DictComp) else [e.elt]):
                out += self.uncovered(part, b, f, env, depth)
            return out
        if isinstance(e, ast.Lambda):
            b = set(bound) | {a.arg for a in e.args.args + e.args.kwonlyargs}
            return self.uncovered(e.body, b, f, env, depth)
        if isinstance(e, ast.Slice):
            return [u for p in (e.lower, e.upper, e.step) if p is not None for u in self.uncovered(p, bound, f, env, depth)]
        if isinstance(e, (ast.Starred, ast.Yield, ast.YieldFrom, ast.Await)):
            return self.uncovered(e.value, bound, f, env, depth) if e.value is not None else []
        if isinstance(e, ast.JoinedStr):
            return [u for v in e.values for u in self.uncovered(v, bound, f, env, depth)]
        if isinstance(e, ast.FormattedValue):
            return self.uncovered(e.value, bound, f, env, depth)
        if isinstance(e, (ast.BoolOp, ast.BinOp, ast.UnaryOp, ast.Compare, ast.IfExp, ast.Tuple, ast.List, ast.Set, ast.Dict, ast.NamedExpr)):
            out = []
            for c in ast.iter_child_nodes(e):
                if isinstance(c, ast.expr):
                    out += self.uncovered(c, bound, f, env, depth)
            return out
        if isinstance(e, ast.stmt):
            out = []
            if isinstance(e, (ast.Assign, ast.AnnAssign, ast.AugAssign)):
                tgts = e.targets if isinstance(e, ast.Assign) else [e.target]
                for tg in tgts:
                    for sub in ast.walk(tg):
                        if isinstance(sub, ast.Subscript):
                            out += self.uncovered(sub.slice, bound, f, env, depth)
                            if not isinstance(sub.value, ast.Name) and text(sub.value) not in self.exclude_tables:
                                out += self.uncovered(sub.value, bound, f, env, depth)
                        elif isinstance(sub, ast.Attribute) and isinstance(sub.ctx, ast.Store) and not isinstance(sub.value, ast.Name) and text(sub.value) not in self.exclude_tables:
                            out += self.uncovered(sub.value, bound, f, env, depth)
                if e.value is not None:
                    out += self.uncovered(e.value, bound, f, env, depth)
                return out
            if isinstance(e, (ast.Expr, ast.Return)):
                return self.uncovered(e.value, bound, f, env, depth) if e.value is not None else []
            if isinstance(e, (ast.Pass, ast.Break, ast.Continue, ast.Import, ast.ImportFrom, ast.Global, ast.Nonlocal)):
                return []
            if isinstance(e, ast.Raise):
                return []              # a path that raises keeps nothing
            if isinstance(e, ast.Assert):
                return self.uncovered(e.test, bound, f, env, depth)
            if isinstance(e, ast.Delete):
                return []
            if isinstance(e, (ast.FunctionDef, ast.AsyncFunctionDef, ast.ClassDef)):
                return []
        self.unknown.append(f'`{t[:60]}`')
        return []

    def _name(self, name: str, bound, f: RawFn, env, depth) -> List[str]:
        if name in bound:
            return []
        if env is not None and name in env:
            return self.uncovered(env[name], set(), self.f, None, 0)
        if name in f.lf.locals:
            if name in self.fixed and f is self.f:
                return []
            if name in f.params():
                if (f.annotation(name) or '').startswith('Match'):
                    # a regular-expression match object: whether the key determines its groups is a fact about the pattern
                    self.match_objects.add(name)
                    return []
                if depth == 0:
                    return [name]
                return [f'{name} (parameter of {f.name})']
            return [f'local:{name}'] if f is self.f else []
        # free in f: a local of an enclosing function, or a module-level name
        p = f.parent
        while p is not None:
            if name in p.lf.locals:
                if self.lifetime == 'local':
                    return []
                return [f'closure:{name}']
            p = p.parent
        k = self.w.global_kind(f.modname, name)
        if k in ('callable', 'const', 'builtin'):
            return []
        if k == 'table':
            if name in self.exclude_tables:
                return []
            return [f'global:{name}']
        self.unknown.append(f'name `{name}`')
        return []

    def closure_callables(self, f: RawFn, name: str) -> Optional[List[RawFn]]:
        """`name` is a parameter of a function enclosing `f`; if every call of that function in the package passes a module-level
        function for it, those functions - else None."""
        p = f.parent
        while p is not None and name not in p.lf.locals:
            p = p.parent
        if p is None or name not in p.params() or name in {x.id for x in own_nodes(p.node) if isinstance(x, ast.Name) and isinstance(x.ctx, ast.Store)}:
            return None
        pos = [a.arg for a in p.node.args.posonlyargs + p.node.args.args]
        if p.is_method():
            pos = pos[1:]
        found: List[RawFn] = []
        n_calls = 0
        for g in self.w.fns.values():
            for x in own_nodes(g.node):
                if isinstance(x, ast.Call) and self.w.resolve_call(g, x) is p:
                    n_calls += 1
                    arg = None
                    if name in pos and pos.index(name) < len(x.args):
                        arg = x.args[pos.index(name)]
                    for k in x.keywords:
                        if k.arg == name:
                            arg = k.value
                    if not isinstance(arg, ast.Name) or arg.id in _assigned_names(g) or self.w.global_kind(g.modname, arg.id) != 'callable':
                        return None
                    t = self.w.fns.get(f'{g.modname}.{arg.id}')
                    if t is None:
                        return None
                    found.append(t)
        return found if n_calls else None

    def _call(self, e: ast.Call, bound, f: RawFn, env, depth) -> List[str]:
        out: List[str] = []
        fn = e.func
        d = dotted(fn)
        args = list(e.args) + [k.value for k in e.keywords]
        g = self.w.resolve_call(f, e) if not (isinstance(fn, ast.Name) and fn.id in bound) else None
        if g is None and isinstance(fn, ast.Name) and fn.id not in bound and fn.id not in f.lf.locals and self.lifetime != 'local':
            tg = self.closure_callables(f, fn.id)
            if tg:
                for t_ in tg:
                    out += self._into(t_, e, bound, f, env, depth)
                return out
        if g is not None and not any(dotted(dc) in LRU_DECORATORS or (isinstance(dc, ast.Call) and dotted(dc.func) in LRU_DECORATORS) for dc in g.node.decorator_list):
            return self._into(g, e, bound, f, env, depth)
        if isinstance(fn, ast.Name):
            if fn.id in PURE_BUILTINS or self.w.global_kind(f.modname, fn.id) in ('callable', 'builtin') and fn.id not in f.lf.locals:
                pass        # determined by its arguments
            else:
                out += self._name(fn.id, bound, f, env, depth)        # a callable held in a variable: which one it is matters
        elif isinstance(fn, ast.Attribute):
            root = (d or '').split('.')[0]
            if d is not None and (root in PURE_MODULES and root not in f.lf.locals):
                pass
            else:
                out += self.uncovered(fn.value, bound, f, env, depth)   # a method of a value: the value is what matters
        else:
            out += self.uncovered(fn, bound, f, env, depth)
        for a in args:
            out += self.uncovered(a, bound, f, env, depth)
        return out

    def _into(self, g: RawFn, call: ast.Call, bound, f: RawFn, env, depth) -> List[str]:
        """A call of a package function: what its body reads, with its parameters standing for the arguments."""
        if depth >= 4 or (g.qual, depth) in self._seen_calls and depth > 2:
            self.unknown.append(f'call chain through `{g.name}` too deep')
            return []
        self._seen_calls.add((g.qual, depth))
        names = [a.arg for a in g.node.args.posonlyargs + g.node.args.args]
        new_env: Dict[str, ast.AST] = {}
        # arguments, read in the caller's terms
        f_derived = {n for n in f.lf.locals if n not in f.params()} if f is not self.f else set(bound)

        def caller_terms(a: ast.AST) -> ast.AST:
            # a value computed in the caller from what the caller reads: those reads are judged where they are made
            if any(isinstance(y, ast.Name) and (y.id in f_derived or y.id in bound) for y in ast.walk(a)):
                return ast.Constant(value='<derived>')
            if env is None:
                return a
            return _subst(a, env)
        if g.is_method() or (g.cls is not None and any(text(dc) == 'classmethod' for dc in g.node.decorator_list)):
            recv = call.func.value if isinstance(call.func, ast.Attribute) else None
            if recv is not None:
                new_env[names[0]] = caller_terms(recv)
            names = names[1:]
        if any(isinstance(a, ast.Starred) for a in call.args) or any(k.arg is None for k in call.keywords):
            self.unknown.append(f'call of `{g.name}` with unpacked arguments')
            return []
        for n_, a in zip(names, call.args):
            new_env[n_] = caller_terms(a)
        for k in call.keywords:
            new_env[k.arg] = caller_terms(k.value)
        dn = g.node.args
        pos = dn.posonlyargs + dn.args
        for p_, dflt in list(zip(pos[len(pos) - len(dn.defaults):], dn.defaults)) + [(p_, d_) for p_, d_ in zip(dn.kwonlyargs, dn.kw_defaults) if d_ is not None]:
            new_env.setdefault(p_.arg, dflt)
        out: List[str] = []
        # every expression evaluated in the body, at statement level; locals of g defined in g are derived values
        derived = {n for n in g.lf.locals if n not in g.params()}
        for st in own_nodes(g.node):
            if isinstance(st, ast.expr) and _is_root_expr(g, st):
                out += self.uncovered(st, set(derived), g, new_env, depth + 1)
        # nested helpers of g run with g's locals: read them as part of g
        return out


def _parent_kind(g: RawFn, x: ast.AST):
    pm = getattr(g, '_parents', None)
    if pm is None:
        pm = {}
        for n in ast.walk(g.node):
            for c in ast.iter_child_nodes(n):
                pm[id(c)] = n
        g._parents = pm
    return pm.get(id(x))


def _is_root_expr(g: RawFn, x: ast.AST) -> bool:
    p = _parent_kind(g, x)
    return isinstance(p, (ast.stmt, ast.ExceptHandler, ast.withitem)) and not isinstance(p, (ast.FunctionDef, ast.AsyncFunctionDef, ast.ClassDef))


def _subst(e: ast.AST, env: Dict[str, ast.AST]) -> ast.AST:
    class S(ast.NodeTransformer):
        def visit_Name(self, node):
            if isinstance(node.ctx, ast.Load) and node.id in env:
                return _copy.deepcopy(env[node.id])
            return node

        def visit_Lambda(self, node):
            return node
    return ast.fix_missing_locations(S().visit(_copy.deepcopy(e)))


def _rebase(e: ast.AST, root: str, new: ast.AST) -> ast.AST:
    return _subst(e, {root: new})


def _annot_immutable(ann: str, w: World) -> bool:
    ann = ann.strip().strip("'\"")
    if ann in IMMUTABLE_ANNOT or ann in w.namedtuples:
        return True
    for outer in ('Optional[', 'Union[', 'Tuple[', 'tuple[', 'Callable[', 'FrozenSet[', 'Type['):
        if ann.startswith(outer) and ann.endswith(']'):
            inner = ann[len(outer):-1]
            if outer.startswith('Callable') or outer.startswith('Type['):
                return True
            parts, depth_, cur = [], 0, ''
            for ch in inner:
                if ch == '[':
                    depth_ += 1
                if ch == ']':
                    depth_ -= 1
                if ch == ',' and depth_ == 0:
                    parts.append(cur)
                    cur = ''
                else:
                    cur += ch
            parts.append(cur)
            return all(p.strip() == '...' or _annot_immutable(p, w) for p in parts)
    return False


# ---------------------------------------------------------------------------------------------------------------------------
# is the kept object itself handed to someone who may change or keep it?
# ---------------------------------------------------------------------------------------------------------------------------
def value_mutability(w: World, f: RawFn, v: ast.AST, depth: int = 0) -> str:
    """'immutable' | 'mutable' | 'mutable-of-immutables' | 'unknown' for the object an expression evaluates to."""
    if isinstance(v, (ast.Constant, ast.JoinedStr, ast.Compare, ast.BoolOp, ast.Lambda)) or (isinstance(v, ast.BinOp) and isinstance(v.op, ast.Mod)):
        return 'immutable'
    if isinstance(v, ast.Tuple):
        ks = [value_mutability(w, f, e, depth) for e in v.elts]
        if all(k == 'immutable' for k in ks):
            return 'immutable'
        return 'mutable' if any(k.startswith('mutable') for k in ks) else 'unknown'
    if isinstance(v, (ast.List, ast.Set, ast.Dict)):
        elts = (v.elts if not isinstance(v, ast.Dict) else [x for x in v.keys + v.values if x is not None])
        return 'mutable-of-immutables' if all(value_mutability(w, f, e, depth) == 'immutable' for e in elts) else 'mutable'
    if isinstance(v, (ast.ListComp, ast.SetComp, ast.DictComp)):
        parts = [v.key, v.value] if isinstance(v, ast.DictComp) else [v.elt]
        return 'mutable-of-immutables' if all(value_mutability(w, f, p, depth) in ('immutable',) or _stringy(p) for p in parts) else 'mutable'
    if isinstance(v, ast.Call):
        d = dotted(v.func)
        if d in ('str', 'int', 'float', 'bool', 'tuple', 'frozenset', 'len', 'repr', 'type', 'id', 'hash', 'getattr') and d != 'getattr':
            return 'immutable' if d != 'tuple' else 'unknown' if v.args and value_mutability(w, f, v.args[0], depth) == 'mutable' else 'immutable'
        if d in ('list', 'dict', 'set', 'sorted', 'np.array', 'np.full', 'np.zeros', 'copy.deepcopy', 'copy.copy', 'collections.OrderedDict', 'OrderedDict'):
            return 'mutable'
        if isinstance(v.func, ast.Attribute) and v.func.attr in ('format', 'join', 'strip', 'lstrip', 'rstrip', 'replace', 'lower', 'upper', 'group', 'sub', 'span'):
            return 'immutable'
        if isinstance(v.func, ast.Attribute) and v.func.attr in ('split', 'splitlines', 'copy', 'items', 'keys', 'values', 'findall', 'groupdict', 'tolist'):
            return 'mutable-of-immutables' if v.func.attr in ('split', 'splitlines', 'findall') else 'mutable'
        if isinstance(v.func, ast.Attribute) and v.func.attr[:1].isupper() and isinstance(v.func.value, ast.Name) and v.func.value.id in PURE_MODULES | {'nx', 'networkx'}:
            return 'mutable'                # an object of a class of another library (a graph, a frame, an array)
        g = w.resolve_call(f, v)
        if g is not None and depth < 3:
            if g.node.returns is not None:
                ann = text(g.node.returns).strip("'\"")
                if _annot_immutable(ann, w):
                    return 'immutable'
                for outer in ('List[', 'Dict[', 'Set[', 'list[', 'dict[', 'set['):
                    if ann.startswith(outer):
                        inner = ann[len(outer):-1]
                        parts = [p for p in _split_top(inner)]
                        return 'mutable-of-immutables' if all(_annot_immutable(p, w) for p in parts) else 'mutable'
                if ann in ('list', 'dict', 'set', 'List', 'Dict', 'Set', 'np.ndarray'):
                    return 'mutable'
            rets = [x.value for x in own_nodes(g.node) if isinstance(x, ast.Return) and x.value is not None]
            ks = {value_mutability(w, g, r, depth + 1) for r in rets}
            if ks and ks <= {'immutable'}:
                return 'immutable'
            if any(k.startswith('mutable') for k in ks):
                return 'mutable'
        return 'unknown'
    if isinstance(v, ast.Attribute) and v.attr in w.method_names:
        return 'immutable'          # a bound method
    return 'unknown'


def _split_top(s: str) -> List[str]:
    parts, depth_, cur = [], 0, ''
    for ch in s:
        if ch == '[':
            depth_ += 1
        if ch == ']':
            depth_ -= 1
        if ch == ',' and depth_ == 0:
            parts.append(cur.strip())
            cur = ''
        else:
            cur += ch
    parts.append(cur.strip())
    return parts


def _stringy(e: ast.AST) -> bool:
    return isinstance(e, (ast.JoinedStr, ast.Constant)) or (isinstance(e, ast.BinOp) and isinstance(e.op, ast.Add) and (_stringy(e.left) or _stringy(e.right))) \
        or (isinstance(e, ast.Call) and isinstance(e.func, ast.Attribute) and e.func.attr in ('format', 'join', 'strip', 'replace', 'group'))


READ_CALLS = {'len', 'list', 'tuple', 'dict', 'set', 'frozenset', 'sorted', 'enumerate', 'zip', 'iter', 'any', 'all', 'sum', 'min', 'max', 'copy.copy', 'copy.deepcopy',
              'deepcopy', 'str', 'repr', 'isinstance', 'type', 'print', 'bool', 'reversed', 'map', 'filter', 'np.array', 'np.asarray', 'Counter', 'id', 'hash'}
READ_METHODS = {'get', 'items', 'keys', 'values', 'copy', 'index', 'count', 'join', 'format', 'startswith', 'endswith', 'split', 'strip'}


def uses_of_value(w: World, f: RawFn, exprs: List[ast.AST], public_result: bool, depth: int = 0) -> List[Tuple[str, ast.AST, RawFn]]:
    """How `f` uses the object(s) that the expressions in `exprs` (nodes of f's body) evaluate to: a list of
    (verdict, node, function) with verdict 'kept' (stored somewhere that outlives the call), 'changed' (mutated in place),
    'returned' (handed to the caller), 'passed' (handed to a call this module does not follow)."""
    par = {}
    for n in ast.walk(f.node):
        for c in ast.iter_child_nodes(n):
            par[id(c)] = n
    out: List[Tuple[str, ast.AST, RawFn]] = []
    seen_alias: Set[str] = set()

    def judge(x: ast.AST) -> None:
        p = par.get(id(x))
        if p is None:
            return
        if isinstance(p, ast.Call):
            if p.func is x:
                return
            d = dotted(p.func)
            if d in READ_CALLS:
                return
            if isinstance(p.func, ast.Attribute) and p.func.attr in READ_METHODS:
                return
            if (d in ('setattr', 'object.__setattr__') or (isinstance(p.func, ast.Attribute) and p.func.attr == '__setattr__')) and p.args and x is p.args[-1]:
                out.append(('kept', p, f))
                return
            g = w.resolve_call(f, p)
            if g is not None and depth < 2 and x in p.args:
                names = [a.arg for a in g.node.args.posonlyargs + g.node.args.args]
                if g.is_method():
                    names = names[1:]
                k = p.args.index(x)
                if k < len(names):
                    inner_names = [n for n in ast.walk(g.node) if isinstance(n, ast.Name) and n.id == names[k] and isinstance(n.ctx, ast.Load)]
                    for (v, node, fn_) in uses_of_value(w, g, inner_names, False, depth + 1):
                        if v == 'returned':
                            judge(p)
                        else:
                            out.append((v, node, fn_))
                    return
            out.append(('passed', p, f))
            return
        if isinstance(p, ast.keyword):
            pp = par.get(id(p))
            if isinstance(pp, ast.Call) and dotted(pp.func) in READ_CALLS:
                return
            g = w.resolve_call(f, pp) if isinstance(pp, ast.Call) else None
            if g is not None and depth < 2 and p.arg in g.params():
                inner_names = [n for n in ast.walk(g.node) if isinstance(n, ast.Name) and n.id == p.arg and isinstance(n.ctx, ast.Load)]
                for (v, node, fn_) in uses_of_value(w, g, inner_names, False, depth + 1):
                    if v == 'returned':
                        judge(pp)
                    else:
                        out.append((v, node, fn_))
                return
            out.append(('passed', pp or p, f))
            return
        if isinstance(p, ast.Attribute):
            pp = par.get(id(p))
            if isinstance(pp, ast.Call) and pp.func is p and p.attr in MUTATORS:
                out.append(('changed', pp, f))
            elif isinstance(p.ctx, ast.Store):
                out.append(('changed', p, f))
            return
        if isinstance(p, ast.Subscript):
            if p.value is x and isinstance(p.ctx, (ast.Store, ast.Del)):
                out.append(('changed', p, f))
            return
        if isinstance(p, ast.Return):
            out.append(('returned', p, f))
            return
        if isinstance(p, (ast.Yield,)):
            out.append(('returned', p, f))
            return
        if isinstance(p, ast.Assign):
            for t in p.targets:
                if isinstance(t, ast.Name):
                    if t.id not in seen_alias:
                        seen_alias.add(t.id)
                        for n in own_nodes(f.node):
                            if isinstance(n, ast.Name) and n.id == t.id and isinstance(n.ctx, ast.Load):
                                judge(n)
                elif isinstance(t, (ast.Tuple, ast.List)):
                    pass                       # unpacked: the container is only read
                else:
                    out.append(('kept', p, f))
            return
        if isinstance(p, ast.AugAssign):
            if p.target is x:
                out.append(('changed', p, f))
            return
        if isinstance(p, ast.IfExp) and x is not p.test:
            judge(p)
            return
        if isinstance(p, ast.Starred):
            return                              # *x: the elements are copied out
        if isinstance(p, ast.Dict) and any(k is None and v is x for k, v in zip(p.keys, p.values)):
            return                              # {**x}: the items are copied out
        if isinstance(p, (ast.Tuple, ast.List, ast.Set, ast.Dict)):
            judge(p)
            return
        # comparisons, iteration, formatting, tests: reads
        return

    for e in exprs:
        judge(e)
    return out


# ---------------------------------------------------------------------------------------------------------------------------
# the caches of the package
# ---------------------------------------------------------------------------------------------------------------------------
def _users_of_name(w: World, modname: str, name: str) -> List[RawFn]:
    out = []
    for f in w.fns.values():
        if f.modname != modname and not _imports_name(w, f.modname, modname, name):
            continue
        for x in own_nodes(f.node):
            if isinstance(x, ast.Name) and x.id == name:
                # not a local of f (or of an enclosing function) with the same name
                p, local = f, False
                while p is not None:
                    if name in _assigned_names(p) and not _declares_global(p, name):
                        local = True
                    p = p.parent
                if not local:
                    out.append(f)
                break
    return out


def _imports_name(w: World, user_mod: str, def_mod: str, name: str) -> bool:
    st = w.globals.get(user_mod, {}).get(name)
    return isinstance(st, ast.ImportFrom) and (st.module or '').split('.')[-1] == def_mod.split('.')[-1]


def _assigned_names(f: RawFn) -> Set[str]:
    c = getattr(f, '_assigned', None)
    if c is None:
        c = set(f.params())
        for x in own_nodes(f.node):
            if isinstance(x, ast.Name) and isinstance(x.ctx, (ast.Store, ast.Del)):
                c.add(x.id)
            if isinstance(x, (ast.FunctionDef, ast.ClassDef)):
                c.add(x.name)
        f._assigned = c
    return c


def _declares_global(f: RawFn, name: str) -> bool:
    return any(isinstance(x, (ast.Global, ast.Nonlocal)) and name in x.names for x in own_nodes(f.node))


def findings(repo: Repo) -> List[Finding]:
    cached = repo.__dict__.get('_memo_findings')
    if cached is not None:
        return cached
    w = World(repo)
    out: List[Finding] = []
    # 1. module-level tables that some function fills
    for (modname, name, st) in w.tables():
        users = _users_of_name(w, modname, name)
        writers = []
        for f in users:
            ops, other = table_ops(f, lambda x, n=name: isinstance(x, ast.Name) and x.id == n)
            if any(o.kind == 'store' for o in ops) or any(isinstance(o, ast.Call) and isinstance(o.func, ast.Attribute) and o.func.attr in MUTATORS for o in other):
                writers.append((f, ops, other))
        if not writers:
            continue            # a table nobody fills at run time: a constant
        out += _judge_table(w, name, 'module', writers, users, repo.modules[modname].relpath, getattr(st, 'lineno', 0))
    # 2. tables local to a function and used by a helper nested in it
    for f in list(w.fns.values()):
        if f.parent is None:
            continue
        for x in own_nodes(f.node):
            pass
    for f in list(w.fns.values()):
        nested = [g for g in w.fns.values() if g.parent is f]
        if not nested:
            continue
        for x in own_nodes(f.node):
            tgt, val = None, None
            if isinstance(x, ast.Assign) and len(x.targets) == 1 and isinstance(x.targets[0], ast.Name):
                tgt, val = x.targets[0].id, x.value
            elif isinstance(x, ast.AnnAssign) and isinstance(x.target, ast.Name) and x.value is not None:
                tgt, val = x.target.id, x.value
            if tgt is None or not is_table_ctor(val):
                continue
            writers = []
            for g in nested:
                if tgt in _assigned_names(g):
                    continue
                ops, other = table_ops(g, lambda y, n=tgt: isinstance(y, ast.Name) and y.id == n)
                if any(o.kind == 'store' for o in ops) and any(o.kind == 'lookup' for o in ops):
                    writers.append((g, ops, other))
            if writers:
                out += _judge_table(w, tgt, 'local', writers, [g for (g, _o, _x) in writers], f.relpath, x.lineno, owner=f)
    # 3. slots of the object itself
    for f in list(w.fns.values()):
        if not f.is_method():
            continue
        slots: Dict[str, List[Op]] = {}
        ops, _other = table_ops(f, lambda y: text(y) == 'self.__dict__')
        for o in ops:
            if isinstance(o.key, ast.Constant) and isinstance(o.key.value, str):
                slots.setdefault(o.key.value, []).append(o)
        for slot, sops in slots.items():
            if any(o.kind == 'store' for o in sops) and any(o.kind == 'lookup' and o.form in ('T.get(K)', 'K in T') for o in sops):
                out += _judge_table(w, 'self.__dict__', 'instance', [(f, sops, [])], [f], f.relpath, f.node.lineno, slot=slot)
    # 3b. a named attribute of the object or of its class, read with a default and set under a test
    for f in list(w.fns.values()):
        if not (f.is_method() or (f.cls is not None and f.parent is None)):
            continue
        slots2: Dict[Tuple[str, str], List[Op]] = {}
        par: Dict[int, ast.AST] = {}
        for n in ast.walk(f.node):
            for c in ast.iter_child_nodes(n):
                par[id(c)] = n

        def stmt_of(x_):
            while not isinstance(x_, ast.stmt):
                x_ = par[id(x_)]
            return x_

        OWNERS = ('self', 'type(self)', 'cls', 'self.__class__')
        for x in own_nodes(f.node):
            if isinstance(x, ast.Call) and dotted(x.func) == 'getattr' and len(x.args) == 3 and text(x.args[0]) in OWNERS and isinstance(x.args[1], ast.Constant) \
                    and isinstance(x.args[1].value, str):
                slots2.setdefault((text(x.args[0]), x.args[1].value), []).append(Op('lookup', 'T.get(K)', x.args[1], None, x, stmt_of(x)))
            elif isinstance(x, ast.Call) and dotted(x.func) == 'setattr' and len(x.args) == 3 and text(x.args[0]) in OWNERS and isinstance(x.args[1], ast.Constant):
                slots2.setdefault((text(x.args[0]), x.args[1].value), []).append(Op('store', 'T[K]=V', x.args[1], x.args[2], x, stmt_of(x)))
            elif isinstance(x, ast.Attribute) and isinstance(x.ctx, ast.Store) and text(x.value) in OWNERS and isinstance(par.get(id(x)), (ast.Assign, ast.AnnAssign)):
                st = par[id(x)]
                slots2.setdefault((text(x.value), x.attr), []).append(Op('store', 'T[K]=V', ast.Constant(value=x.attr), st.value, x, st))
        for (owner, attr), sops in slots2.items():
            if any(o.kind == 'store' for o in sops) and any(o.kind == 'lookup' for o in sops):
                out += _judge_table(w, f'{owner}.<attributes>', 'attribute', [(f, sops, [])], [f], f.relpath, f.node.lineno, slot=attr, owner_text=owner)
    # 4. functools.lru_cache / cache
    for f in list(w.fns.values()):
        if any(dotted(dc) in LRU_DECORATORS or (isinstance(dc, ast.Call) and dotted(dc.func) in LRU_DECORATORS) for dc in f.node.decorator_list):
            out += _judge_lru(w, f)
    repo.__dict__['_memo_findings'] = out
    return out


def _judge_table(w: World, name: str, lifetime: str, writers, users, relpath: str, line: int, owner: Optional[RawFn] = None, slot: Optional[str] = None,
                 owner_text: Optional[str] = None) -> List[Finding]:
    out: List[Finding] = []
    label = name if slot is None else (f"self.__dict__[{slot!r}]" if owner_text is None else f'{owner_text}.{slot}')
    user_names = tuple(sorted({u.qual for u in users} | ({owner.qual} if owner else set())))
    for (f, ops, other) in writers:
        try:
            if other:
                raise Unread(f'`{text(other[0])[:60]}`: a use of the table that is not a lookup or a store by key')
            pr = Protocol(w, f, name, ops, lifetime)
            pr.read()
            if owner_text is not None:
                # the object the attribute sits on is part of what the entry is looked up by - except that getattr() on a class
                # also finds the attribute of a base class: the class is then *not* determined by the lookup
                if owner_text == 'self':
                    pr.material.append(ast.Name(id='self', ctx=ast.Load()))
                else:
                    pr.inherited_lookup = True
            # other functions that use the table by key (read-only users: they see what the protocol keeps)
            out += _completeness(w, pr, label, relpath, user_names)
            out += _sharing(w, pr, label, relpath, user_names, users)
        except Unread as e:
            out.append(Finding('unread', label, f.qual, f.relpath, f.node.lineno, f'`{label}` is filled and read in {f.name}() in a way this analysis does not read: {e}', user_names))
    return out


def _completeness(w: World, pr: Protocol, label: str, relpath: str, users) -> List[Finding]:
    f = pr.f
    fixed: Set[str] = set()
    cov = Coverage(w, f, pr.material, pr.lifetime, hit=lambda e: pr._is_hit(e, pr.store_node.id), exclude_tables={pr.tname})
    if getattr(pr, 'inherited_lookup', False):
        cov.inherited_lookup = True
    cov.exclude_tables |= {pr.tname.split('.<attributes>')[0]}
    unc: List[str] = []
    lf = f.lf
    for nid in sorted(pr.region):
        n = f.cfg.nodes[nid]
        from fsa.flow import node_expr_roots
        for root in node_expr_roots(n):
            # locals defined inside the region are derived values; those defined before it are read through
            derived = set()
            for x in ast.walk(root):
                if isinstance(x, ast.Name) and isinstance(x.ctx, ast.Load) and x.id in lf.locals:
                    defs = lf.defs_reaching(nid, x.id)
                    if defs and all(d != PARAM and d in pr.region for d in defs):
                        derived.add(x.id)
                    elif any(d != PARAM and f.cfg.nodes[d].kind == 'with' for d in defs):
                        derived.add(x.id)            # an object made by a `with` statement of this call
            if text(root) in cov.texts:
                continue
            e2 = pr.read_through(nid, root)
            if text(e2) in cov.texts:
                continue
            for u in cov.uncovered(e2, bound=derived):
                if u.startswith('local:'):
                    for u2 in _resolve_local(pr, cov, u[6:], nid, set()):
                        if u2 not in unc:
                            unc.append(u2)
                    continue
                if u not in unc:
                    unc.append(u)
    if cov.match_objects and not unc:
        return [Finding('unread-match', label, f.qual, f.relpath, pr.store_node.lineno,
                        f'`{label}`: what is kept is computed from the regular-expression match `{sorted(cov.match_objects)[0]}`; whether the key determines its groups is a fact about '
                        f'the pattern (left to the rules that read the pattern)', users)]
    if cov.unknown and not unc:
        return [Finding('unread', label, f.qual, f.relpath, pr.store_node.lineno,
                        f'`{label}`: what the kept value depends on was not read completely ({", ".join(sorted(set(cov.unknown)))[:160]})', users)]
    if unc:
        key = sorted(pr.key_texts)[0]
        tags = ', '.join(f'`{text(e)}`' for (e, _h) in pr.tags)
        return [Finding('incomplete-key', label, f.qual, f.relpath, pr.store_node.lineno,
                        f'`{label}` is looked up by `{key}`' + (f' (and checked against {tags})' if tags else '') + f' but what it keeps is computed from '
                        f'{", ".join("`" + u + "`" for u in unc[:4])} as well: a later call with the same key and a different value of that is served the earlier result', users)]
    return [Finding('sound', label, f.qual, f.relpath, pr.store_node.lineno, f'`{label}`: everything the kept value is computed from is part of the key `{sorted(pr.key_texts)[0]}`'
                    + (f' or of the tag compared on the way out' if pr.tags else ''), users)]


def _resolve_local(pr: Protocol, cov: 'Coverage', nm: str, nid: int, seen: Set[Tuple[str, int]]) -> List[str]:
    """A local of the protocol's function that could not be read through as one expression: judged definition by definition.
    A definition inside the region is a derived value; one made by a loop header or by unpacking is an input in its own right
    (which element it is matters), covered only if the key names it."""
    f, lf = pr.f, pr.f.lf
    if nm in cov.texts:
        return []
    out: List[str] = []
    for d in sorted(lf.defs_reaching(nid, nm)):
        if (nm, d) in seen:
            continue
        seen.add((nm, d))
        if d == PARAM:
            out.append(nm)
            continue
        if d in pr.region:
            continue
        dn = f.cfg.nodes[d]
        if dn.kind == 'with':
            continue
        v = lf.def_value(d, nm)
        if v is None or dn.kind != 'stmt':
            out.append(nm)                       # a loop variable, an unpacked element, an augmented value: an input as it stands
            continue
        v2 = pr.read_through(d, v)
        for u in cov.uncovered(v2):
            if u.startswith('local:'):
                out += _resolve_local(pr, cov, u[6:], d, seen)
            else:
                out.append(u)
    return out


def _kept_value(pr: Protocol) -> Optional[ast.AST]:
    o = pr.store
    if o.value is None:
        return None
    return pr.read_through(pr.store_node.id, o.value)


def _sharing(w: World, pr: Protocol, label: str, relpath: str, users, user_fns) -> List[Finding]:
    f = pr.f
    v = _kept_value(pr)
    if v is None:
        return []                      # a set of keys: nothing is handed out
    # which part is handed out: expressions of f that denote the entry or a part of it, outside the test itself
    exprs: List[ast.AST] = []
    parts: Set[str] = set()
    for x in own_nodes(f.node):
        if isinstance(x, ast.expr):
            # evaluated where?  use the store node for reading keys through: same function, same locals
            k = pr._is_hit(x, pr.store_node.id)
            if k is not None and not isinstance(getattr(x, 'ctx', None), ast.Store):
                exprs.append(x)
    # keep maximal expressions only (h[1] rather than the h inside it)
    inner = {id(y) for x in exprs for y in ast.walk(x) if y is not x}
    exprs = [x for x in exprs if id(x) not in inner]
    out: List[Finding] = []
    judged = False
    for x in exprs:
        part = v
        if isinstance(x, ast.Subscript) and pr._is_hit(x, pr.store_node.id) == 'part' and isinstance(x.slice, ast.Constant) and isinstance(v, ast.Tuple) \
                and isinstance(x.slice.value, int) and x.slice.value < len(v.elts):
            part = v.elts[x.slice.value]
        mut = value_mutability(w, f, part)
        if mut == 'immutable':
            continue
        uses = uses_of_value(w, f, [x], not f.name.startswith('_'))
        for (verdict, node, fn_) in uses:
            if verdict == 'returned':
                # what do the callers do with it?
                res = _callers_use(w, fn_, mut)
                for (vv, nn, gg) in res:
                    judged = True
                    if vv == 'unknown' or mut == 'unknown':
                        out.append(Finding('unread', label, f.qual, f.relpath, getattr(node, 'lineno', 0),
                                           f'`{label}` keeps {_describe(mut)} and {fn_.name}() hands that object out; what becomes of it in {gg.name}() was not read', users))
                    else:
                        out.append(Finding('shared-result', label, f.qual, gg.relpath, getattr(nn, 'lineno', 0),
                                           f'`{label}` keeps {_describe(mut)} and {fn_.name}() hands out that very object, which {gg.name}() then {vv} (`{text(nn)[:70]}`): '
                                           f'every later call served from the cache gets the same, changed object', users))
            elif verdict in ('kept', 'changed'):
                judged = True
                # storing the entry back into the table itself is the protocol, not a use
                if isinstance(node, ast.Assign) and any(isinstance(t, ast.Subscript) and text(t.value) == pr.tname for t in node.targets):
                    continue
                if any(node is o_.stmt or node is o_.node for o_ in pr.stores):
                    continue
                out.append(Finding('shared-result' if mut != 'unknown' else 'unread', label, f.qual, fn_.relpath, getattr(node, 'lineno', 0),
                                   f'`{label}` keeps {_describe(mut)} and {fn_.name}() {"stores that very object in" if verdict == "kept" else "changes that very object through"} '
                                   f'`{text(node)[:70]}`: the cache and its users share one object', users))
            elif verdict == 'passed':
                out.append(Finding('unread', label, f.qual, f.relpath, getattr(node, 'lineno', 0),
                                   f'`{label}` keeps {_describe(mut)}, which is passed to `{text(node)[:60]}`: what becomes of it there was not read', users))
    return out


def _describe(mut: str) -> str:
    return {'mutable': 'a mutable object', 'mutable-of-immutables': 'a mutable container', 'unknown': 'an object'}.get(mut, 'an object')


def _callers_use(w: World, g: RawFn, mut: str, depth: int = 0) -> List[Tuple[str, ast.AST, RawFn]]:
    """What the callers of `g` do with its result (the shared object): [('changes' | 'keeps' | 'returns to its own caller' | 'unknown', node, function)]."""
    out: List[Tuple[str, ast.AST, RawFn]] = []
    public = not g.name.startswith('_') and g.parent is None
    callers: List[Tuple[RawFn, ast.Call]] = []
    for f in w.fns.values():
        for x in own_nodes(f.node):
            if isinstance(x, ast.Call) and ((isinstance(x.func, ast.Name) and x.func.id == g.name) or (isinstance(x.func, ast.Attribute) and x.func.attr == g.name)):
                if w.resolve_call(f, x) is g or (isinstance(x.func, ast.Attribute) and g.cls is not None):
                    callers.append((f, x))
    if public:
        out.append(('returns to the user, who is free to change', g.node, g))
    for (f, call) in callers:
        for (verdict, node, fn_) in uses_of_value(w, f, [call], False):
            if verdict == 'returned':
                if depth < 2:
                    out += _callers_use(w, fn_, mut, depth + 1)
                else:
                    out.append(('unknown', node, fn_))
            elif verdict == 'kept':
                out.append(('keeps', node, fn_))
            elif verdict == 'changed':
                out.append(('changes', node, fn_))
            else:
                out.append(('unknown', node, fn_))
    return out


def _judge_lru(w: World, f: RawFn) -> List[Finding]:
    label = f'{f.name}() [lru_cache]'
    users = tuple(sorted({f.qual} | {g.qual for g in w.fns.values() if any(isinstance(x, ast.Call) and w.resolve_call(g, x) is f for x in own_nodes(g.node))}))
    out: List[Finding] = []
    params = list(f.params())
    material: List[ast.AST] = [ast.Name(id=p, ctx=ast.Load()) for p in params]
    cov = Coverage(w, f, material, 'module')
    unc: List[str] = []
    for x in own_nodes(f.node):
        if isinstance(x, ast.expr) and _is_root_expr(f, x):
            derived = {n for n in f.lf.locals if n not in f.params()}
            for u in cov.uncovered(x, bound=derived):
                if u in params or u.split('.')[0] in params and cov.immutable_root(u.split('.')[0]):
                    continue
                if u not in unc:
                    unc.append(u)
    # a module-level table that the body reads is covered when every call site passes an injective image of it
    callers = [(g, x) for g in w.fns.values() for x in own_nodes(g.node) if isinstance(x, ast.Call) and w.resolve_call(g, x) is f]
    still = []
    for u in unc:
        if u.startswith('global:') and callers:
            nm = u[7:]
            ok = True
            for (g, c) in callers:
                pr = Protocol(w, g, '', [], 'module')
                try:
                    n = pr.node_of(_stmt_of(g, c))
                except Unread:
                    ok = False
                    break
                args = [pr.read_through(n.id, a) for a in list(c.args) + [k.value for k in c.keywords]]
                cv = Coverage(w, g, args, 'module')
                if nm not in cv.texts:
                    ok = False
            if ok:
                continue
        still.append(u)
    if cov.unknown and not still:
        out.append(Finding('unread', label, f.qual, f.relpath, f.node.lineno, f'{label}: what the result depends on was not read completely ({", ".join(sorted(set(cov.unknown)))[:160]})', users))
    elif still:
        out.append(Finding('incomplete-key', label, f.qual, f.relpath, f.node.lineno,
                           f'{label} is looked up by its arguments ({", ".join(params)}) but its result is computed from {", ".join("`" + u + "`" for u in still[:4])} as well: '
                           f'a later call with the same arguments and a different value of that is served the earlier result', users))
    else:
        out.append(Finding('sound', label, f.qual, f.relpath, f.node.lineno, f'{label}: the result is computed from its arguments only', users))
    # the object handed out
    rets = [x.value for x in own_nodes(f.node) if isinstance(x, ast.Return) and x.value is not None]
    muts = {value_mutability(w, f, r) for r in rets}
    if f.node.returns is not None:
        ann = text(f.node.returns).strip("'\"")
        if _annot_immutable(ann, w):
            muts = {'immutable'}
        elif ann.split('[')[0] in ('List', 'Dict', 'Set', 'list', 'dict', 'set'):
            muts = {'mutable'}
    if muts <= {'immutable'}:
        return out
    mut = 'mutable' if any(m.startswith('mutable') for m in muts) else 'unknown'
    for (vv, nn, gg) in _callers_use(w, f, mut):
        if vv == 'unknown' or mut == 'unknown':
            out.append(Finding('unread', label, f.qual, f.relpath, getattr(nn, 'lineno', 0), f'{label} hands out the object it keeps; what becomes of it in {gg.name}() was not read', users))
        else:
            out.append(Finding('shared-result', label, f.qual, gg.relpath, getattr(nn, 'lineno', 0),
                               f'{label} keeps {_describe(mut)} and hands out that very object, which {gg.name}() then {vv}: every later call with the same arguments gets the same, '
                               f'changed object', users))
    return out


def _stmt_of(g: RawFn, x: ast.AST) -> ast.stmt:
    while not isinstance(x, ast.stmt):
        x = _parent_kind(g, x)
    return x


# ---------------------------------------------------------------------------------------------------------------------------
# use by the rules of a property
# ---------------------------------------------------------------------------------------------------------------------------
def closure_of(repo: Repo, roots: Iterable[str], limit: int = 2) -> Set[str]:
    """Qualified names of the package functions reachable from `roots` through calls that resolve to one function (a nested or
    module-level function by its bare name, a method of the same class through self/cls), `limit` calls deep; helpers nested in
    a function belong to it."""
    w = _world(repo)
    best: Dict[str, int] = {}
    work = [(r, 0) for r in roots if r in w.fns]
    while work:
        q, d = work.pop()
        if q in best and best[q] <= d:
            continue
        best[q] = d
        f = w.fns[q]
        for g in w.fns.values():
            if g.parent is f:
                work.append((g.qual, d))
        if d >= limit:
            continue
        for x in own_nodes(f.node):
            if isinstance(x, ast.Call):
                g = w.resolve_call(f, x)
                if g is not None:
                    work.append((g.qual, d + 1))
            elif isinstance(x, ast.Attribute) and x.attr in w.properties and isinstance(x.value, ast.Name) and x.value.id in ('self', 'cls'):
                for g in w.properties[x.attr]:
                    if f.cls is not None and g.cls is f.cls:
                        work.append((g.qual, d + 1))
    return set(best)


def _world(repo: Repo) -> World:
    w = repo.__dict__.get('_memo_world')
    if w is None:
        w = repo.__dict__['_memo_world'] = World(repo)
    return w


def sound_tables(repo: Repo) -> Set[str]:
    """Names of tables / slots whose protocol was read and found sound on both questions."""
    fs = findings(repo)
    bad = {f.cache for f in fs if f.kind != 'sound'}
    return {f.cache for f in fs if f.kind == 'sound'} - bad


FIXTURE = """
import functools
from typing import Dict, List, Tuple

_TABLE: Dict[str, List[str]] = {}
_BY_CLASS = {}


def stale(text: str, width: int) -> List[str]:
    if text not in _TABLE:
        _TABLE[text] = [text[i:i + width] for i in range(0, len(text), width)]
    return _TABLE[text]


def fine(text: str, width: int) -> List[str]:
    key = (text, width)
    if key not in _BY_CLASS:
        _BY_CLASS[key] = [text[i:i + width] for i in range(0, len(text), width)]
    return list(_BY_CLASS[key])


@functools.lru_cache(maxsize=None)
def shared(n: int) -> List[int]:
    return [0] * n


def user(n: int) -> List[int]:
    out = shared(n)
    out.append(1)
    return out
"""


def positive_control() -> Tuple[bool, str]:
    """The engine run on a built-in module with one cache of each kind: must report the incomplete key of `_TABLE`, the
    object of `shared()` changed by `user()`, and find `_BY_CLASS` sound."""
    from types import SimpleNamespace
    fake = SimpleNamespace(modules={'fixture': SimpleNamespace(src=FIXTURE, relpath='fixture.py', name='fixture')}, __dict__={})
    fake = type('FakeRepo', (), {})()
    fake.modules = {'fixture': SimpleNamespace(src=FIXTURE, relpath='fixture.py', name='fixture')}
    got = {(f.kind, f.cache.split('(')[0]) for f in findings(fake)}
    want = {('incomplete-key', '_TABLE'), ('shared-result', 'shared'), ('sound', '_BY_CLASS')}
    return (want <= got, f'expected {sorted(want)}, got {sorted(got)}')


def _dedupe(fs: List[Finding]) -> List[Finding]:
    seen, out = set(), []
    for f in fs:
        k = (f.kind, f.cache, f.func, f.what)
        if k not in seen:
            seen.add(k)
            out.append(f)
    return out


def report(R, depth: int = 2) -> None:
    """The caches on the code paths of this property (the functions its rules read, and what those call): an incomplete key
    or a kept object that is handed out and changed is a violation of the property; a protocol that was not read leaves it
    undecided; a sound cache is recorded as such (and its stores are not effects: see sound_tables)."""
    repo = R.repo
    fs = _dedupe(findings(repo))
    roots = set(R._funcs_seen)
    # the methods of a class run on objects that its constructor built
    w_ = _world(repo)
    for q_ in list(roots):
        f_ = w_.fns.get(q_)
        if f_ is not None and f_.cls is not None and f_.parent is None:
            init = q_.rsplit('.', 1)[0] + '.__init__'
            if init in w_.fns:
                roots.add(init)
    scope = closure_of(repo, roots, limit=depth)
    files = _anchor_files(R.prop)
    n = 0
    for f in fs:
        if not ({f.func} | set(f.users)) & scope:
            continue
        if files and not any(u_.relpath in files for u_ in [_world(repo).fns[q_] for q_ in ({f.func} | set(f.users)) & scope if q_ in _world(repo).fns]):
            continue
        n += 1
        where = f'{f.relpath}:{f.line}'
        if f.kind in ('incomplete-key', 'shared-result'):
            R.violation(f.func, f'cache:{f.kind}:{f.cache}', f.what, where=where)
        elif f.kind == 'unread':
            R.inconclusive(f.func, f.what)
        else:
            R.ok(f.func, f.what, trivial=(f.kind == 'unread-match'))
    ok_pc, detail_pc = positive_control()
    R.check(ok_pc, 'selftest/fixture', 'positive-control', 'the cache analysis reports the built-in fixture (stale key, shared object) and accepts its sound cache',
            f'positive control of the cache analysis failed: {detail_pc}', decided=True)
    w = _world(repo)
    R.ok('fsic/*', f'{len(w.tables())} module-level table(s), {sum(len(v) for v in w.class_tables.values())} class-level table(s) and the lru_cache decorators of {len(w.fns)} '
                   f'functions looked at; {n} cache(s)/finding(s) on the code paths of this property ({len(scope)} functions)', trivial=(n == 0))


def owned(repo: Repo, node: ast.AST) -> Optional[str]:
    """`node` (a statement or expression of the tree as analysed) is a store into a table or slot that this module has read
    as a cache (whatever it found): the label of the cache, else None.  Rules that look for effects leave such stores to
    report()."""
    labels = {f.cache for f in findings(repo) if f.kind in ('sound', 'incomplete-key', 'shared-result')}
    if not labels:
        return None
    for x in ast.walk(node):
        tgt = None
        if isinstance(x, ast.Subscript) and isinstance(x.ctx, (ast.Store, ast.Del)):
            tgt = x
        elif isinstance(x, ast.Call) and isinstance(x.func, ast.Attribute) and x.func.attr in ('add', 'setdefault') and isinstance(x.func.value, ast.Name):
            if x.func.value.id in labels:
                return x.func.value.id
        if isinstance(x, ast.Attribute) and isinstance(x.ctx, ast.Store) and f'{text(x.value)}.{x.attr}' in labels:
            return f'{text(x.value)}.{x.attr}'
        if isinstance(x, ast.Call) and dotted(x.func) == 'setattr' and len(x.args) == 3 and isinstance(x.args[1], ast.Constant) and f'{text(x.args[0])}.{x.args[1].value}' in labels:
            return f'{text(x.args[0])}.{x.args[1].value}'
        if tgt is not None:
            if isinstance(tgt.value, ast.Name) and tgt.value.id in labels:
                return tgt.value.id
            if text(tgt.value) == 'self.__dict__' and isinstance(tgt.slice, ast.Constant):
                lab = f"self.__dict__[{tgt.slice.value!r}]"
                if lab in labels:
                    return lab
    return None


def _anchor_files(prop: str) -> Set[str]:
    """The files the property is anchored in (properties.jsonl)."""
    import json
    from pathlib import Path
    p = Path(__file__).resolve().parent.parent / 'properties.jsonl'
    try:
        for line in p.read_text().splitlines():
            r = json.loads(line)
            if r.get('id') == prop:
                return set((r.get('anchors') or {}).get('files') or [])
    except Exception:
        pass
    return set()
