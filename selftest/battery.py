"""Self-test of the checker: edits of the *current* tree applied to scratch
copies (outside /repo and /verif, removed afterwards), each analysed with the
real `./check`.

  F = must fire      (exit 1, a VIOLATION of the named rule)
  S = must stay silent (exit 0)
  I = must be inconclusive (exit 2, never a VIOLATION)

Usage:  /venv/bin/python -m selftest.battery [Cxx ...] [-j N] [--with-tests] [-v]
"""

from __future__ import annotations

import ast
import concurrent.futures as cf
import os
import shutil
import subprocess
import sys
import tempfile
import time
from pathlib import Path
from typing import Any, Dict, List, Optional, Tuple

HERE = Path(__file__).resolve().parent.parent
sys.path.insert(0, str(HERE))
sys.dont_write_bytecode = True

from selftest.variants import VARIANTS, Variant  # noqa: E402

REPO = Path(os.environ.get('FSIC_REPO', '/repo'))


class NotApplicable(Exception):
    pass


def _function_span(src: str, qual: str) -> Tuple[int, int]:
    """(start, end) character offsets of a function/class given as `A.b.c`
    (nested functions: `A.b.<locals>.c` or just `A.b.c`)."""
    tree = ast.parse(src)
    parts = [p for p in qual.split('.') if p != '<locals>']
    want_setter = False
    if parts and parts[-1] == 'setter':
        want_setter = True
        parts = parts[:-1]
    node: ast.AST = tree
    for k, p in enumerate(parts):
        found = None
        for sub in ast.walk(node):
            if sub is node:
                continue
            if isinstance(sub, (ast.FunctionDef, ast.ClassDef, ast.AsyncFunctionDef)) and sub.name == p:
                if want_setter and k == len(parts) - 1:
                    if not any(isinstance(d, ast.Attribute) and d.attr == 'setter' for d in getattr(sub, 'decorator_list', [])):
                        continue
                found = sub
                break
        if found is None:
            # module-level assignment target (e.g. FORTRAN_TEMPLATE)
            for sub in ast.walk(node):
                if isinstance(sub, (ast.Assign, ast.AnnAssign)):
                    tgts = sub.targets if isinstance(sub, ast.Assign) else [sub.target]
                    if any(isinstance(t, ast.Name) and t.id == p for t in tgts):
                        found = sub
                        break
        if found is None:
            raise NotApplicable(f'{qual}: `{p}` not found')
        node = found
    lines = src.splitlines(keepends=True)
    start_line = node.lineno
    if getattr(node, 'decorator_list', None):
        start_line = min(d.lineno for d in node.decorator_list)
    start = sum(len(l) for l in lines[: start_line - 1])
    end = sum(len(l) for l in lines[: node.end_lineno])
    return start, end


def apply_variant(v: Variant, root: Path) -> None:
    for (rel, scope, old, new) in v.edits:
        path = root / rel
        src = path.read_text()
        if scope:
            s, e = _function_span(src, scope)
        else:
            s, e = 0, len(src)
        seg = src[s:e]
        cnt = seg.count(old)
        if cnt != 1:
            raise NotApplicable(f'{v.id}: `{old[:50]}` occurs {cnt} times in {rel}:{scope or "<file>"}')
        seg = seg.replace(old, new)
        src2 = src[:s] + seg + src[e:]
        try:
            compile(src2, str(path), 'exec')
        except SyntaxError as ex:
            raise NotApplicable(f'{v.id}: edited file does not compile: {ex}') from ex
        path.write_text(src2)


def run_variant(v: Variant, with_tests: bool = False) -> Dict[str, Any]:
    tmp = Path(tempfile.mkdtemp(prefix='fsa_selftest_'))
    try:
        shutil.copytree(REPO / 'fsic', tmp / 'fsic', ignore=shutil.ignore_patterns('__pycache__'))
        try:
            apply_variant(v, tmp)
        except NotApplicable as e:
            return {'id': v.id, 'prop': v.prop, 'expect': v.expect, 'status': 'not-applicable', 'why': str(e)}
        env = dict(os.environ)
        env['FSIC_REPO'] = str(tmp)
        env['FSA_OUT'] = str(tmp / 'out')
        env['PYTHONDONTWRITEBYTECODE'] = '1'
        p = subprocess.run(
            [str(HERE / 'check'), v.prop, '--tier', 'quick'],
            cwd=str(HERE), env=env, capture_output=True, text=True, timeout=120,
        )
        out = p.stdout + p.stderr
        got = {0: 'S', 1: 'F', 2: 'I'}.get(p.returncode, '?')
        ok = got == v.expect
        if ok and v.expect == 'F' and v.rule:
            ok = f'rule={v.rule} ' in out or f'rule={v.rule}\n' in out
        res = {
            'id': v.id, 'prop': v.prop, 'expect': v.expect, 'rule': v.rule, 'got': got,
            'status': 'ok' if ok else 'MISMATCH', 'what': v.what,
        }
        if not ok:
            res['output'] = out[-1500:]
        if with_tests:
            shutil.copytree(REPO / 'tests', tmp / 'tests', ignore=shutil.ignore_patterns('__pycache__', '*.f95'))
            for extra in ('pyproject.toml',):
                if (REPO / extra).exists():
                    shutil.copy(REPO / extra, tmp / extra)
            t = subprocess.run(
                ['/venv/bin/python', '-m', 'pytest', '-q', '-x', '-p', 'no:cacheprovider', '--deselect', 'tests/test_fortran.py',
                 '--ignore', 'tests/test_fortran.py', 'tests'],
                cwd=str(tmp), capture_output=True, text=True, timeout=900,
            )
            res['suite'] = 'passes' if t.returncode == 0 else 'fails'
            res['suite_tail'] = t.stdout.strip().splitlines()[-1:] if t.stdout else []
        return res
    finally:
        shutil.rmtree(tmp, ignore_errors=True)


def run_many(variants: List[Variant], jobs: int = 16, with_tests: bool = False) -> List[Dict[str, Any]]:
    with cf.ThreadPoolExecutor(max_workers=jobs) as ex:
        return list(ex.map(lambda v: run_variant(v, with_tests), variants))


def run_slice(prop: str, jobs: int = 16) -> Dict[str, Any]:
    """Used by the thorough tier: run this property's variants, summarise."""
    vs = [v for v in VARIANTS if v.prop == prop]
    t0 = time.time()
    rs = run_many(vs, jobs)
    summ: Dict[str, Any] = {'variants': len(vs), 'wall_s': round(time.time() - t0, 2)}
    for kind, name in (('F', 'must_fire'), ('S', 'must_stay_silent'), ('I', 'must_be_inconclusive')):
        sel = [r for r in rs if r['expect'] == kind]
        okc = sum(1 for r in sel if r['status'] == 'ok')
        na = sum(1 for r in sel if r['status'] == 'not-applicable')
        summ[name] = f'{okc}/{len(sel) - na}' + (f' ({na} not-applicable)' if na else '')
    summ['mismatches'] = [{k: r[k] for k in ('id', 'expect', 'got') if k in r} for r in rs if r['status'] == 'MISMATCH']
    return summ


def main() -> int:
    import argparse

    ap = argparse.ArgumentParser()
    ap.add_argument('props', nargs='*')
    ap.add_argument('-j', type=int, default=16)
    ap.add_argument('--with-tests', action='store_true')
    ap.add_argument('-v', action='store_true')
    ap.add_argument('--only')
    a = ap.parse_args()
    vs = [v for v in VARIANTS if (not a.props or v.prop in [p.upper() for p in a.props])]
    if a.only:
        vs = [v for v in vs if v.id.startswith(a.only)]
    t0 = time.time()
    rs = run_many(vs, a.j, a.with_tests)
    bad = 0
    for r in rs:
        line = f"{r['id']:10s} {r['prop']} expect={r['expect']} "
        if r['status'] == 'not-applicable':
            line += f"NOT-APPLICABLE {r['why']}"
            bad += 1
        else:
            line += f"got={r['got']} {r['status']} {r.get('rule') or ''}"
            if 'suite' in r:
                line += f" suite={r['suite']}"
        if r['status'] != 'ok' or a.v:
            print(line)
            if r['status'] == 'MISMATCH':
                bad += 1
                print('    ' + r.get('output', '').replace('\n', '\n    '))
    n_ok = sum(1 for r in rs if r['status'] == 'ok')
    print(f'selftest: {n_ok}/{len(rs)} variants behave as expected in {time.time() - t0:.1f}s')
    return 0 if bad == 0 else 1


if __name__ == '__main__':
    sys.exit(main())


# ---------------------------------------------------------------------------------------------------------------------
# corpora produced by independent sub-agents (see DESIGN 9, 10): kept seeded changes of this property must be reported,
# kept behaviour-preserving refactorings must leave the check at exit 0.  Applied to scratch copies of the *current*
# tree; a patch that no longer applies is counted as not-applicable.

def _run_patch(patch: Path, prop: str) -> Optional[int]:
    tmp = Path(tempfile.mkdtemp(prefix='fsa_corpus_'))
    try:
        shutil.copytree(REPO / 'fsic', tmp / 'fsic', ignore=shutil.ignore_patterns('__pycache__'))
        p = subprocess.run(['patch', '-p1', '-s', '--no-backup-if-mismatch', '-i', str(patch)], cwd=str(tmp), capture_output=True, text=True)
        if p.returncode != 0:
            return None
        env = dict(os.environ, FSIC_REPO=str(tmp), FSA_OUT=str(tmp / 'out'), PYTHONDONTWRITEBYTECODE='1')
        q = subprocess.run([str(HERE / 'check'), prop, '--tier', 'quick'], cwd=str(HERE), env=env, capture_output=True, text=True, timeout=180)
        return q.returncode
    finally:
        shutil.rmtree(tmp, ignore_errors=True)


def run_corpora(prop: str, jobs: int = 16) -> Dict[str, Any]:
    import json
    seeded = []
    for d in sorted((HERE / 'seeded').iterdir()) if (HERE / 'seeded').is_dir() else []:
        m = d / 'meta.json'
        if m.exists() and json.loads(m.read_text()).get('property') == prop and (d / 'patch.diff').exists():
            seeded.append(d)
    refs = [d for d in sorted((HERE / 'refactors').iterdir()) if d.is_dir() and (d / 'patch.diff').exists()] if (HERE / 'refactors').is_dir() else []
    t0 = time.time()
    with cf.ThreadPoolExecutor(max_workers=jobs) as ex:
        sres = list(ex.map(lambda d: _run_patch(d / 'patch.diff', prop), seeded))
        rres = list(ex.map(lambda d: _run_patch(d / 'patch.diff', prop), refs))
    out: Dict[str, Any] = {'wall_s': None}
    s_app = [(d.name, r) for d, r in zip(seeded, sres) if r is not None]
    r_app = [(d.name, r) for d, r in zip(refs, rres) if r is not None]
    out['seeded_changes_reported'] = f'{sum(1 for _n, r in s_app if r == 1)}/{len(s_app)}' + (f' ({len(seeded) - len(s_app)} not-applicable)' if len(seeded) != len(s_app) else '')
    out['seeded_not_reported'] = [n for n, r in s_app if r != 1]
    out['refactorings_silent'] = f'{sum(1 for _n, r in r_app if r == 0)}/{len(r_app)}' + (f' ({len(refs) - len(r_app)} not-applicable)' if len(refs) != len(r_app) else '')
    out['refactorings_inconclusive'] = [n for n, r in r_app if r == 2]
    out['refactorings_false_alarm'] = [n for n, r in r_app if r == 1]
    out['wall_s'] = round(time.time() - t0, 2)
    return out
