"""Variant catalogue for the checker self-test (DESIGN appendix A).

Each variant is a list of scoped text edits `(file, scope, old, new)` where
`scope` is a dotted class/function path inside the file ('' = whole file) and
`old` must occur exactly once inside that scope.  Variants are located by
construct, not by line.  Every edited file must still compile.
"""

from __future__ import annotations

from dataclasses import dataclass, field
from typing import List, Optional, Tuple

Edit = Tuple[str, str, str, str]


@dataclass
class Variant:
    id: str
    prop: str
    expect: str  # 'F' must fire, 'S' must stay silent, 'I' must be inconclusive
    rule: Optional[str]
    what: str
    edits: List[Edit]


VARIANTS: List[Variant] = []


def V(id, prop, expect, rule, what, *edits) -> None:
    VARIANTS.append(Variant(id, prop, expect, rule, what, list(edits)))


MODELS = 'fsic/core/models.py'
LINKERS = 'fsic/core/linkers.py'
IFACE = 'fsic/core/interfaces.py'
CONT = 'fsic/core/containers.py'
PARSER = 'fsic/parser.py'
FORTRAN = 'fsic/fortran.py'
TOOLS = 'fsic/tools.py'
FUNCS = 'fsic/functions.py'
XCOMMON = 'fsic/extensions/common.py'
XMODEL = 'fsic/extensions/model.py'

ST = 'BaseModel.solve_t'

# ---------------------------------------------------------------------------
# C02
# ---------------------------------------------------------------------------
V('v02.1', 'C02', 'F', 'C02.R5', '<= tol', (MODELS, ST, 'np.abs(diff) < tol', 'np.abs(diff) <= tol'))
V('v02.2', 'C02', 'F', 'C02.R5', 'any for all', (MODELS, ST, 'np.all(np.abs(diff) < tol)', 'np.any(np.abs(diff) < tol)'))
V('v02.3', 'C02', 'F', 'C02.R5', 'diff of current with itself',
  (MODELS, ST, 'diff = current_values - previous_values', 'diff = current_values - current_values'))
V('v02.3b', 'C02', 'F', 'C02.R5', 'previous saved after the evaluation',
  (MODELS, ST, '            previous_values = current_values.copy()\n', ''),
  (MODELS, ST, '            current_values = get_check_values()\n\n            # It', '            previous_values = current_values.copy()\n            current_values = get_check_values()\n\n            # It'))
V('v02.3c', 'C02', 'F', 'C02.R5', 'no abs: signed difference',
  (MODELS, ST, 'np.all(np.abs(diff) < tol)', 'np.all(diff < tol)'))
V('v02.4', 'C02', 'F', 'C02.R3', 'range(1, max_iter)', (MODELS, ST, 'range(1, max_iter + 1)', 'range(1, max_iter)'))
V('v02.4b', 'C02', 'F', 'C02.R3', 'range(max_iter)', (MODELS, ST, 'range(1, max_iter + 1)', 'range(max_iter)'))
V('v02.5', 'C02', 'F', 'C02.R4', 'iteration <= min_iter', (MODELS, ST, 'if iteration < min_iter:', 'if iteration <= min_iter:'))
V('v02.6', 'C02', 'F', 'C02.R4', 'gate after the convergence test',
  (MODELS, ST, '            if iteration < min_iter:\n                continue\n\n', ''),
  (MODELS, ST, "                status = SolutionStatus.SOLVED.value\n                break\n",
   "                status = SolutionStatus.SOLVED.value\n                break\n\n            if iteration < min_iter:\n                continue\n"))
V('v02.7', 'C02', 'F', 'C02.R6', 'final iterations store = max_iter',
  (MODELS, ST, '        self.status[t] = status\n        self.iterations[t] = iteration\n', '        self.status[t] = status\n        self.iterations[t] = max_iter\n'))
V('v02.8', 'C02', 'F', 'C02.R6', 'return status != FAILED',
  (MODELS, ST, 'return status == SolutionStatus.SOLVED.value', 'return status != SolutionStatus.FAILED.value'))
V('v02.9', 'C02', 'F', 'C02.R7', 'revert F1: no counter initialisation',
  (MODELS, ST, '        iteration = 0\n\n', ''))
V('v02.9b', 'C02', 'F', 'C02.R6', 'counter initialised to -1', (MODELS, ST, '        iteration = 0\n', '        iteration = -1\n'))
V('v02.10', 'C02', 'F', 'C02.R8', 'solve_t_after after the final stores',
  (MODELS, ST, """                with warnings.catch_warnings(record=True) as w:  # noqa: F841
                    if errors == 'raise' and catch_first_error:
                        warnings.simplefilter('error')
                    else:
                        warnings.simplefilter('always')

                    try:
                        self.solve_t_after(
                            t,
                            errors=errors,
                            catch_first_error=catch_first_error,
                            iteration=iteration,
                            **kwargs,
                        )
                    except Exception as e:
                        raise SolutionError(
                            f'Error in `solve_t_after()` '
                            f'in period with label: {self.span[t]} (index: {t})'
                        ) from e

""", ''),
  (MODELS, ST, "        self.status[t] = status\n        self.iterations[t] = iteration\n",
   """        self.status[t] = status
        self.iterations[t] = iteration

        try:
            self.solve_t_after(
                t,
                errors=errors,
                catch_first_error=catch_first_error,
                iteration=iteration,
                **kwargs,
            )
        except Exception as e:
            raise SolutionError('Error in `solve_t_after()`') from e
"""))
V('v02.12', 'C02', 'F', 'C02.R1', 'min/max check after the offset copy',
  (MODELS, ST, """        # Error if `min_iter` exceeds `max_iter`
        if min_iter > max_iter:
            raise ValueError(
                f'Value of `min_iter` ({min_iter}) '
                f'cannot exceed value of `max_iter` ({max_iter})'
            )
""", ''),
  (MODELS, ST, "        status = SolutionStatus.UNSOLVED.value\n        current_values = get_check_values()\n",
   "        if min_iter > max_iter:\n            raise ValueError('min_iter > max_iter')\n\n        status = SolutionStatus.UNSOLVED.value\n        current_values = get_check_values()\n"))
V('v02.13', 'C02', 'F', 'C02.R2', 'offset upper bound > instead of >=',
  (MODELS, ST, 'if t_check + offset >= len(self.span):', 'if t_check + offset > len(self.span):'))
V('v02.13b', 'C02', 'F', 'C02.R2', 'offset lower bound <= 0', (MODELS, ST, 'if t_check + offset < 0:', 'if t_check + offset <= 0:'))
V('v02.13c', 'C02', 'F', 'C02.R2', 'copy from t - offset',
  (MODELS, ST, "self.__dict__['_' + name][t + offset]", "self.__dict__['_' + name][t - offset]"))
V('v02.13d', 'C02', 'F', 'C02.R2', 'offset bound tested on raw t',
  (MODELS, ST, 'if t_check + offset < 0:', 'if t + offset < 0:'))
V('v02.14', 'C02', 'F', 'C02.R9', 'solve_period drops tol', (IFACE, 'SolverMixin.solve_period', '            tol=tol,\n', ''))
V('v02.15', 'C02', 'F', 'C02.R9', 'solve_period failures=errors', (IFACE, 'SolverMixin.solve_period', 'failures=failures,', 'failures=errors,'))
V('v02.16', 'C02', 'F', 'C02.R6', 'NonConvergenceError regardless of failures',
  (MODELS, ST, "if status == SolutionStatus.FAILED.value and failures == 'raise':", 'if status == SolutionStatus.FAILED.value:'))
V('v02.17', 'C02', 'F', 'C02.R6', 'skip branch breaks without a status',
  (MODELS, ST, "                    status = SolutionStatus.SKIPPED.value\n                    break", "                    break"))
V('v02.18', 'C02', 'F', 'C02.R6', 'F on a non-final pass (ignore)',
  (MODELS, ST, """                elif errors == 'ignore':
                    if iteration == max_iter:
                        status = SolutionStatus.FAILED.value
                        break
                    continue""", """                elif errors == 'ignore':
                    status = SolutionStatus.FAILED.value
                    break"""))
V('v02.19', 'C02', 'F', 'C02.R3', 'evaluation passes iteration - 1', (MODELS, ST, '                        iteration=iteration,\n                        **kwargs,\n                    )\n                except Exception as e:\n                    if', '                        iteration=iteration - 1,\n                        **kwargs,\n                    )\n                except Exception as e:\n                    if'))
V('v02.s1', 'C02', 'S', None, 'np.absolute, flipped comparison',
  (MODELS, ST, 'np.all(np.abs(diff) < tol)', 'np.all(tol > np.absolute(diff))'))
V('v02.s2', 'C02', 'S', None, 'previous saved with np.array()',
  (MODELS, ST, 'previous_values = current_values.copy()', 'previous_values = np.array(current_values)'))
V('v02.s3', 'C02', 'S', None, 'affine rewrite of the loop bound', (MODELS, ST, 'range(1, max_iter + 1)', 'range(1, 1 + max_iter)'))
V('v02.s5', 'C02', 'S', None, 'model convergence stated through a negation (NaNs cannot reach the test: both non-finite checks come first)',
  (MODELS, ST, 'if np.all(np.abs(diff) < tol):', 'if not np.any(np.abs(diff) >= tol):'))
V('v02.s4', 'C02', 'S', None, 'gate as negated >=', (MODELS, ST, 'if iteration < min_iter:', 'if not iteration >= min_iter:'))
V('v02.s5', 'C02', 'S', None, 'offset bound rewritten', (MODELS, ST, 'if t_check + offset >= len(self.span):', 'if t_check + offset > len(self.span) - 1:'))
V('v02.s6', 'C02', 'S', None, 'method-form reduction', (MODELS, ST, 'np.all(np.abs(diff) < tol)', '(np.abs(diff) < tol).all()'))
V('v02.s7', 'C02', 'S', None, 'not any(>=)', (MODELS, ST, 'np.all(np.abs(diff) < tol)', 'not np.any(np.abs(diff) >= tol)'))
V('v02.i1', 'C02', 'I', None, 'ufunc-based comparison (not in the idiom table)',
  (MODELS, ST, 'np.all(np.abs(diff) < tol)', 'np.less(np.abs(diff), tol).all()'))
V('v02.s8', 'C02', 'S', None, 'infinity norm < tol (same predicate, also for an empty check list)',
  (MODELS, ST, 'np.all(np.abs(diff) < tol)', 'np.linalg.norm(diff, np.inf) < tol'))
V('v02.22', 'C02', 'F', 'C02.R5', 'Euclidean norm (seeded C02-r2-1)', (MODELS, ST, 'np.all(np.abs(diff) < tol)', 'np.linalg.norm(diff) < tol'))
V('v02.23', 'C02', 'F', 'C02.R5', 'max(abs) fails for an empty check list (seeded C15-r2-3)', (MODELS, ST, 'np.all(np.abs(diff) < tol)', 'np.max(np.abs(diff)) < tol'))

# ---------------------------------------------------------------------------
# C06
# ---------------------------------------------------------------------------
V('v06.1', 'C06', 'F', 'C06.R1', "literal 'S'", (MODELS, ST, 'status = SolutionStatus.SKIPPED.value', "status = 'S'"))
V('v06.2', 'C06', 'F', 'C06.R3', 'current tested before previous',
  (MODELS, ST, """            if np.any(~np.isfinite(previous_values)):
                continue

""", ''),
  (MODELS, ST, """            if iteration < min_iter:
                continue

            diff =""", """            if np.any(~np.isfinite(previous_values)):
                continue

            if iteration < min_iter:
                continue

            diff ="""))
V('v06.3', 'C06', 'F', 'C06.R2', 'ignore row: iteration < max_iter',
  (MODELS, ST, """                elif errors == 'ignore':
                    if iteration == max_iter:""", """                elif errors == 'ignore':
                    if iteration < max_iter:"""))
V('v06.4', 'C06', 'F', 'C06.R2', 'skip row continues',
  (MODELS, ST, "                    status = SolutionStatus.SKIPPED.value\n                    break", "                    status = SolutionStatus.SKIPPED.value\n                    continue"))
V('v06.5', 'C06', 'F', 'C06.R4', '_evaluate handler drops from e',
  (MODELS, ST, """                        f'Error after {iteration} iterations(s) '
                        f'in period with label: {self.span[t]} (index: {t})'
                    ) from e""", """                        f'Error after {iteration} iterations(s) '
                        f'in period with label: {self.span[t]} (index: {t})'
                    )"""))
V('v06.6', 'C06', 'F', 'C06.R4', '_evaluate handler drops the E store',
  (MODELS, ST, """                    if errors == 'raise':
                        self.status[t] = SolutionStatus.ERROR.value
                        self.iterations[t] = iteration

                    raise SolutionError(
                        f'Error after""", """                    raise SolutionError(
                        f'Error after"""))
V('v06.7', 'C06', 'F', 'C06.R4', 'solve_t_after outside try',
  (MODELS, ST, """                    try:
                        self.solve_t_after(
                            t,
                            errors=errors,
                            catch_first_error=catch_first_error,
                            iteration=iteration,
                            **kwargs,
                        )
                    except Exception as e:
                        raise SolutionError(
                            f'Error in `solve_t_after()` '
                            f'in period with label: {self.span[t]} (index: {t})'
                        ) from e
""", """                    self.solve_t_after(
                        t,
                        errors=errors,
                        catch_first_error=catch_first_error,
                        iteration=iteration,
                        **kwargs,
                    )
"""))
V('v06.8', 'C06', 'F', 'C06.R5', 'pre-existing check after solve_t_before',
  (MODELS, ST, """        if errors == 'raise' and np.any(~np.isfinite(current_values)):
            raise SolutionError(
                f'Pre-existing NaNs or infinities found '
                f'in one or more `check` variables '
                f'in period with label: {self.span[t]} (index: {t})'
            )
""", ''),
  (MODELS, ST, "        iteration = 0\n", """        if errors == 'raise' and np.any(~np.isfinite(current_values)):
            raise SolutionError('Pre-existing NaNs or infinities found')

        iteration = 0
"""))
V('v06.8b', 'C06', 'F', 'C06.R5', 'pre-existing check regardless of errors',
  (MODELS, ST, "if errors == 'raise' and np.any(~np.isfinite(current_values)):\n            raise SolutionError(\n                f'Pre-existing",
   "if np.any(~np.isfinite(current_values)):\n            raise SolutionError(\n                f'Pre-existing"))
V('v06.9', 'C06', 'F', 'C06.R6', "_evaluate block: 'error' under errors == 'raise' only",
  (MODELS, ST, """                if errors == 'raise' and catch_first_error:
                    # Immediately raise""", """                if errors == 'raise':
                    # Immediately raise"""))
V('v06.9b', 'C06', 'F', 'C06.R6', "after block: filters swapped",
  (MODELS, ST, """                    if errors == 'raise' and catch_first_error:
                        warnings.simplefilter('error')
                    else:
                        warnings.simplefilter('always')
""", """                    if errors == 'raise' and catch_first_error:
                        warnings.simplefilter('always')
                    else:
                        warnings.simplefilter('error')
"""))
V('v06.10', 'C06', 'F', 'C06.R1', "SKIPPED = 'X'", (IFACE, 'SolutionStatus', "SKIPPED = 'S'", "SKIPPED = 'X'"))
V('v06.11', 'C06', 'F', 'C06.R2', "raise row stores F", (MODELS, ST, """                if errors == 'raise':
                    self.status[t] = SolutionStatus.ERROR.value
                    self.iterations[t] = iteration

                    raise SolutionError(
                        f'Numerical""", """                if errors == 'raise':
                    self.status[t] = SolutionStatus.FAILED.value
                    self.iterations[t] = iteration

                    raise SolutionError(
                        f'Numerical"""))
V('v06.12', 'C06', 'F', 'C06.R2', "raise row raises ValueError", (MODELS, ST, """                    raise SolutionError(
                        f'Numerical solution error""", """                    raise ValueError(
                        f'Numerical solution error"""))
V('v06.13', 'C06', 'F', 'C06.R2', "invalid errors silently ignored", (MODELS, ST, """                else:
                    raise ValueError(f'Invalid `errors` argument: {errors}')
""", """                else:
                    continue
"""))
V('v06.14', 'C06', 'F', 'C06.R4', "linker KeyError without from e", (LINKERS, 'BaseLinker.solve_t', """raise KeyError(f"'{name}' not found in list of submodels") from e""", """raise KeyError(f"'{name}' not found in list of submodels")"""))
V('v06.15', 'C06', 'F', 'C06.R1', "fortran wrapper literal status", (FORTRAN, 'FortranEngine.solve_t', "status = SolutionStatus.SKIPPED.value", "status = 's'"))
V('v06.16', 'C06', 'F', 'C06.R7', 'solve() stores True always', (IFACE, 'SolverMixin.solve', 'solved[i] = self.solve_t(', 'solved[i] = True; self.solve_t('))
V('v06.s1', 'C06', 'S', None, 'filter via conditional expression',
  (MODELS, ST, """                if errors == 'raise' and catch_first_error:
                    # Immediately raise an exception in the event of a
                    # numerical solution error
                    warnings.simplefilter('error')
                else:
                    warnings.simplefilter('always')
""", """                warnings.simplefilter('error' if errors == 'raise' and catch_first_error else 'always')
"""))
V('v06.s2', 'C06', 'S', None, 'not all(isfinite)', (MODELS, ST, 'if np.any(~np.isfinite(previous_values)):', 'if not np.all(np.isfinite(previous_values)):'))

# ---------------------------------------------------------------------------
# C04
# ---------------------------------------------------------------------------
V('v04.1', 'C04', 'F', 'C04.R1', 'E status stored at t - 1',
  (MODELS, ST, """                if errors == 'raise':
                    self.status[t] = SolutionStatus.ERROR.value
                    self.iterations[t] = iteration

                    raise SolutionError(
                        f'Numerical""", """                if errors == 'raise':
                    self.status[t - 1] = SolutionStatus.ERROR.value
                    self.iterations[t] = iteration

                    raise SolutionError(
                        f'Numerical"""))
V('v04.2', 'C04', 'F', 'C04.R1', 'offset copy iterates self.names', (MODELS, ST, 'for name in self.endogenous:', 'for name in self.names:'))
V('v04.3', 'C04', 'F', 'C04.R3', 'revert F12: no feasibility guard',
  (MODELS, ST, """        if t_position < self.lags or t_position > len(self.span) - 1 - self.leads:
            raise IndexError(
                f'Position `t` ({t}) cannot accommodate the lags ({self.lags}) '
                f'and leads ({self.leads}) of the current model instance, '
                f'which has {len(self.span)} period(s) in its span'
            )
""", ''))
V('v04.3b', 'C04', 'F', 'C04.R3', 'guard off by one (<= lags)',
  (MODELS, ST, 't_position < self.lags or', 't_position <= self.lags or'))
V('v04.3c', 'C04', 'F', 'C04.R3', 'guard lags/leads crossed',
  (MODELS, ST, 't_position < self.lags or t_position > len(self.span) - 1 - self.leads', 't_position < self.leads or t_position > len(self.span) - 1 - self.lags'))
V('v04.3d', 'C04', 'F', 'C04.R3', 'guard on raw t (negative positions unchecked)',
  (MODELS, ST, 't_position < self.lags or t_position > len(self.span) - 1 - self.leads', 't < self.lags or t > len(self.span) - 1 - self.leads'))
V('v04.4', 'C04', 'F', 'C04.R2', 'feasibility guard after the offset copy',
  (MODELS, ST, """        if t_position < self.lags or t_position > len(self.span) - 1 - self.leads:
            raise IndexError(
                f'Position `t` ({t}) cannot accommodate the lags ({self.lags}) '
                f'and leads ({self.leads}) of the current model instance, '
                f'which has {len(self.span)} period(s) in its span'
            )
""", ''),
  (MODELS, ST, "        status = SolutionStatus.UNSOLVED.value\n        current_values = get_check_values()\n",
   "        if t_position < self.lags or t_position > len(self.span) - 1 - self.leads:\n            raise IndexError('infeasible')\n\n        status = SolutionStatus.UNSOLVED.value\n        current_values = get_check_values()\n"))
V('v04.5', 'C04', 'F', 'C04.R3', 'template: evaluate loses the lags guard',
  (FORTRAN, 'FORTRAN_TEMPLATE', """  ! Check that `index` allows for enough lags and leads
  if(index <= lags) then
     error_code = index_error_lags
     return
  else if(index > (ncols - leads)) then
     error_code = index_error_leads
     return
  end if

  ! ---------------------------------------------------------------------------
{equations}""", """  ! Check that `index` allows for enough leads
  if(index > (ncols - leads)) then
     error_code = index_error_leads
     return
  end if

  ! ---------------------------------------------------------------------------
{equations}"""))
V('v04.5b', 'C04', 'F', 'C04.R3', 'template: leads guard >= (rejects a feasible period)',
  (FORTRAN, 'FORTRAN_TEMPLATE', """  else if(index > (ncols - leads)) then
     error_code = index_error_leads
     return
  end if

  ! ---------------------------------------------------------------------------
{equations}""", """  else if(index >= (ncols - leads)) then
     error_code = index_error_leads
     return
  end if

  ! ---------------------------------------------------------------------------
{equations}"""))
V('v04.6', 'C04', 'F', 'C04.R1', 'template: replace writes column index - 1',
  (FORTRAN, 'FORTRAN_TEMPLATE', 'solved_values(endogenous(i), index) = 0.0', 'solved_values(endogenous(i), index - 1) = 0.0'))
V('v04.7', 'C04', 'F', 'C04.R1', 'linker stamps submodels at t + 1',
  (LINKERS, 'BaseLinker.solve_t', 'submodel.status[t] = status', 'submodel.status[t + 1] = status'))
V('v04.8', 'C04', 'F', 'C04.R1', 'check values read at t - 1', (MODELS, ST, "return np.array([self.__dict__['_' + name][t] for name in self.check])", "return np.array([self.__dict__['_' + name][t - 1] for name in self.check])"))
V('v04.9', 'C04', 'F', 'C04.R1', 'template: solve_t calls evaluate with t', (FORTRAN, 'FORTRAN_TEMPLATE', 'call evaluate(previous_values, index, solved_values, error_code, nrows, ncols)', 'call evaluate(previous_values, t, solved_values, error_code, nrows, ncols)'))
V('v04.s1', 'C04', 'S', None, 'guard rewritten equivalently',
  (MODELS, ST, 't_position < self.lags or t_position > len(self.span) - 1 - self.leads', 't_position + 1 <= self.lags or t_position >= len(self.span) - self.leads'))

V('v07.30', 'C07', 'F', 'C07.R4', 'revert F42: the Fortran period loop stops on an error code only under errors=raise',
  (FORTRAN, 'FORTRAN_TEMPLATE', """     else if(error_control == error_control_raise                                              &
          &  .or. error_code < numerical_error_raise .or. error_code >= offset_predates_span) then""", """     else if(error_control == error_control_raise) then"""))
V('v07.30b', 'C07', 'F', 'C07.R4', 'the period loop stops for offset errors but not for a period that cannot accommodate the lags',
  (FORTRAN, 'FORTRAN_TEMPLATE', """          &  .or. error_code < numerical_error_raise .or. error_code >= offset_predates_span) then""", """          &  .or. error_code >= offset_predates_span) then"""))
V('v07.30c', 'C07', 'F', 'C07.R4', 'the period loop stops on every error code (a skipped period ends the run)',
  (FORTRAN, 'FORTRAN_TEMPLATE', """     else if(error_control == error_control_raise                                              &
          &  .or. error_code < numerical_error_raise .or. error_code >= offset_predates_span) then""", """     else if(error_code /= 0) then"""))
V('v07.s7', 'C07', 'S', None, 'the same stop condition written as a list of codes',
  (FORTRAN, 'FORTRAN_TEMPLATE', """          &  .or. error_code < numerical_error_raise .or. error_code >= offset_predates_span) then""", """          &  .or. (error_code >= 11 .and. error_code <= 14) .or. error_code == 41 .or. error_code == 42) then"""))
V('v07.31', 'C07', 'F', 'C07.R4', 'revert F45: the wrapper subscripts an empty span',
  (FORTRAN, 'FortranEngine.solve', "        # As in `iter_periods()`\n        if len(self.span) == 0:\n            raise SolutionError('Object `span` is empty: No periods to solve')\n\n", ''))
V('v07.s8', 'C07', 'S', None, 'the empty-span test spelt with truthiness',
  (FORTRAN, 'FortranEngine.solve', '        if len(self.span) == 0:\n            raise SolutionError(', '        if not len(self.span):\n            raise SolutionError('))
# ---------------------------------------------------------------------------
# C08
# ---------------------------------------------------------------------------
LT = 'BaseLinker.solve_t'
V('v08.1', 'C08', 'F', 'C08.R3', 'revert F10: squared differences',
  (LINKERS, LT, 'if all(np.all(np.abs(v) < tol) for v in diff.values()):', 'if all(np.all(v**2 < tol) for v in diff.values()):'))
V('v08.1b', 'C08', 'F', 'C08.R3', 'revert F10 verbatim',
  (LINKERS, LT, '            if all(np.all(np.abs(v) < tol) for v in diff.values()):', '            diff_squared = {k: v**2 for k, v in diff.items()}\n\n            if all(np.all(v < tol) for v in diff_squared.values()):'))
V('v08.1c', 'C08', 'F', 'C08.R3', 'any submodel suffices', (LINKERS, LT, 'if all(np.all(np.abs(v) < tol) for v in diff.values()):', 'if any(np.all(np.abs(v) < tol) for v in diff.values()):'))
V('v08.2', 'C08', 'F', 'C08.R1', 'post-hook before the submodel passes',
  (LINKERS, LT, """            self.evaluate_t(
                t,
                submodels=submodels,
                errors=errors,
                catch_first_error=catch_first_error,
                iteration=iteration,
                **kwargs,
            )
            self.evaluate_t_after(
                t,
                submodels=submodels,
                errors=errors,
                catch_first_error=catch_first_error,
                iteration=iteration,
                **kwargs,
            )
""", """            self.evaluate_t_after(
                t,
                submodels=submodels,
                errors=errors,
                catch_first_error=catch_first_error,
                iteration=iteration,
                **kwargs,
            )
            self.evaluate_t(
                t,
                submodels=submodels,
                errors=errors,
                catch_first_error=catch_first_error,
                iteration=iteration,
                **kwargs,
            )
"""))
V('v08.3', 'C08', 'F', 'C08.R2', 'evaluate_t iterates all submodels', (LINKERS, 'BaseLinker.evaluate_t', 'for name in submodels:', "for name in self.__dict__['submodels']:"))
V('v08.4', 'C08', 'F', 'C08.R2', 'no iteration increment', (LINKERS, 'BaseLinker.evaluate_t', '            submodel.iterations[t] += 1\n', ''))
V('v08.5', 'C08', 'F', 'C08.R4', 'stamp all submodels',
  (LINKERS, LT, """        for name in submodels:
            submodel = self.__dict__['submodels'][name]
            submodel.status[t] = status""", """        for name in self.__dict__['submodels']:
            submodel = self.__dict__['submodels'][name]
            submodel.status[t] = status"""))
V('v08.6', 'C08', 'F', 'C08.R3', "linker's own check values omitted",
  (LINKERS, LT, """            check_values = {
                self.name: np.array(
                    [self.__dict__['_' + name][t] for name in self.check]
                ),
            }""", """            check_values = {}"""))
V('v08.6c', 'C08', 'F', 'C08.R3', "revert F34: linker's own check values under the literal key '_'",
  (LINKERS, LT, """                self.name: np.array(""", """                '_': np.array("""))
V('v08.18', 'C08', 'F', 'C08.R9', 'revert F35 (limits): the linker accepts min_iter > max_iter',
  (LINKERS, LT, """        if min_iter > max_iter:
            raise ValueError(
                f'Value of `min_iter` ({min_iter}) '
                f'cannot exceed value of `max_iter` ({max_iter})'
            )
""", ''))
V('v08.18b', 'C08', 'F', 'C08.R9', 'revert F35 (feasibility): the linker serves a period that cannot accommodate the lags',
  (LINKERS, LT, """        if t_position < self.lags or t_position > len(self.span) - 1 - self.leads:""", """        if False:"""))
V('v08.6b', 'C08', 'F', 'C08.R3', 'all submodels checked, not the selection',
  (LINKERS, LT, """                if k in submodels:
                    check_values[k] = np.array(
                        [submodel[name][t] for name in submodel.check]
                    )""", """                check_values[k] = np.array(
                    [submodel[name][t] for name in submodel.check]
                )"""))
V('v08.7', 'C08', 'F', 'C08.R6', 'lags folded with min', (LINKERS, 'BaseLinker.__init__', 'lags =  max(lags, comparator.LAGS)', 'lags =  min(lags, comparator.LAGS)'))
V('v08.7b', 'C08', 'F', 'C08.R6', 'leads folded from LAGS', (LINKERS, 'BaseLinker.__init__', 'leads = max(leads, comparator.LEADS)', 'leads = max(leads, comparator.LAGS)'))
V('v08.8', 'C08', 'F', 'C08.R6', 'revert F17: raw span comparison', (LINKERS, 'BaseLinker.__init__', 'if list(comparator.span) != list(base.span):', 'if comparator.span != base.span:'))
V('v08.9', 'C08', 'F', 'C08.R7', 'revert F1b', (LINKERS, LT, '        iteration = 0\n\n', ''))
V('v08.10', 'C08', 'F', 'C08.R5', 'unknown id: handler swallows', (LINKERS, LT, """            except KeyError as e:
                raise KeyError(f"'{name}' not found in list of submodels") from e""", """            except KeyError as e:
                continue"""))
V('v08.11', 'C08', 'F', 'C08.R4', 'iteration reset dropped', (LINKERS, LT, '            submodel.iterations[t] = 0\n', '            pass\n'))
V('v08.12', 'C08', 'F', 'C08.R1', 'evaluate_t without the selection',
  (LINKERS, LT, """            self.evaluate_t(
                t,
                submodels=submodels,""", """            self.evaluate_t(
                t,"""))
V('v08.13', 'C08', 'F', 'C08.R3', 'gate <=', (LINKERS, LT, 'if iteration < min_iter:', 'if iteration <= min_iter:'))
V('v08.14', 'C08', 'F', 'C08.R4', 'final iterations = max_iter', (LINKERS, LT, '        self.iterations[t] = iteration\n', '        self.iterations[t] = max_iter\n'))
V('v08.15', 'C08', 'F', 'C08.R6', '_LAGS receives leads', (LINKERS, 'BaseLinker.__init__', "self.__dict__['_LAGS'] = lags", "self.__dict__['_LAGS'] = leads"))
V('v08.s1', 'C08', 'S', None, 'tuple comparison of spans', (LINKERS, 'BaseLinker.__init__', 'if list(comparator.span) != list(base.span):', 'if tuple(comparator.span) != tuple(base.span):'))
V('v08.s2', 'C08', 'S', None, 'np.absolute', (LINKERS, LT, 'np.all(np.abs(v) < tol)', 'np.all(np.absolute(v) < tol)'))

# ---------------------------------------------------------------------------
# C01
# ---------------------------------------------------------------------------
V('v01.1', 'C01', 'F', 'C01.R1', 'leads rendered [t-k]', (PARSER, 'Term.__str__', "index = f'[t+{self.index_}]'", "index = f'[t-{self.index_}]'"))
V('v01.2', 'C01', 'F', 'C01.R1', 'k == 0 renders [t+0]', (PARSER, 'Term.__str__', "index = '[t]'", "index = '[t+0]'"))
V('v01.2b', 'C01', 'F', 'C01.R1', 'negative branch adds a minus', (PARSER, 'Term.__str__', "index = f'[t{self.index_}]'", "index = f'[t-{self.index_}]'"))
V('v01.2c', 'C01', 'F', 'C01.R1', 'sign test flipped', (PARSER, 'Term.__str__', 'if self.index_ > 0:', 'if self.index_ < 0:'))
V('v01.3', 'C01', 'F', 'C01.R1', 'substring replacement of function names',
  (PARSER, 'Term.code', 'return replacement_function_names.get(code, code)', "for k, v in replacement_function_names.items():\n                code = code.replace(k, v)\n            return code"))
V('v01.4', 'C01', 'F', 'C01.R1', "self. instead of self._", (PARSER, 'Term.code', "return 'self._' + code", "return 'self.' + code"))
V('v01.4b', 'C01', 'F', 'C01.R1', 'keywords no longer replaced', (PARSER, 'Term.code', 'if self.type in (Type.FUNCTION, Type.KEYWORD):', 'if self.type in (Type.FUNCTION,):'))
V('v01.5', 'C01', 'F', 'C01.R2', 'numpy import removed', (PARSER, '', 'import numpy as np  # noqa: F401\n', ''))
V('v01.6', 'C01', 'F', 'C01.R2', 'log -> np.log10', (PARSER, '', "'log': 'np.log',", "'log': 'np.log10',"))
V('v01.6b', 'C01', 'F', 'C01.R2', 'typing Optional import removed', (PARSER, '', '    Optional,\n', ''), (PARSER, '', 'index: Optional[Union[int, str]] = None', 'index = None'),
  (PARSER, 'Term', 'index_: Optional[Union[int, str]]', 'index_: Union[int, str, None]'), (PARSER, 'Symbol', """    name: Optional[str]
    type: Type
    lags: Optional[int]
    leads: Optional[int]
    equation: Optional[str]
    code: Optional[str]""", """    name: Union[str, None]
    type: Type
    lags: Union[int, None]
    leads: Union[int, None]
    equation: Union[str, None]
    code: Union[str, None]"""))
V('v01.8', 'C01', 'F', 'C01.R3', 'code formatted over reversed terms',
  (PARSER, 'parse_equation', 'code = template.format(*[t.code for t in terms])', 'code = template.format(*[t.code for t in terms[::-1]])'))
V('v01.8b', 'C01', 'F', 'C01.R3', 'equation formatted from the raw text',
  (PARSER, 'parse_equation', 'equation = template.format(*[str(t) for t in terms])', 'equation = re.sub(r"\\s+", " ", equation)'))
V('v01.9', 'C01', 'F', 'C01.R4', 'int(index_[:2])', (PARSER, 'parse_terms', 'index = int(index_)', 'index = int(index_[:2])'))
V('v01.10', 'C01', 'F', 'C01.R4', 'missing index -> 1', (PARSER, 'parse_terms', '                index = 0\n', '                index = 1\n'))
V('v01.11', 'C01', 'F', 'C01.R5', r'no \b after the keyword group', (PARSER, '', r"rf'(?: \b (?P<_KEYWORD> {KEYWORD_LIST} ) \b )|'", r"rf'(?: \b (?P<_KEYWORD> {KEYWORD_LIST} ) )|'"))
V('v01.12', 'C01', 'F', 'C01.R5', 'FUNCTION after the variable alternative',
  (PARSER, '', r"""        (?: (?P<_FUNCTION> [_A-Za-z][_A-Za-z0-9.]*[_A-Za-z0-9]* ) \s* (?= \( ) )|

        (?:
            (?: \{ \s* (?P<_PARAMETER> [_A-Za-z][_A-Za-z0-9]* ) \s* \} )|
            (?: \< \s* (?P<_ERROR>     [_A-Za-z][_A-Za-z0-9]* ) \s* \> )|
            (?:        (?P<_VARIABLE>  [_A-Za-z][_A-Za-z0-9]* )        )
        )
        (?: \[ \s* (?P<INDEX> .*? ) \s* \] )?
""", r"""        (?:
            (?:
                (?: \{ \s* (?P<_PARAMETER> [_A-Za-z][_A-Za-z0-9]* ) \s* \} )|
                (?: \< \s* (?P<_ERROR>     [_A-Za-z][_A-Za-z0-9]* ) \s* \> )|
                (?:        (?P<_VARIABLE>  [_A-Za-z][_A-Za-z0-9]* )        )
            )
            (?: \[ \s* (?P<INDEX> .*? ) \s* \] )?
        )|
        (?: (?P<_FUNCTION> [_A-Za-z][_A-Za-z0-9.]*[_A-Za-z0-9]* ) \s* (?= \( ) )
"""))
V('v01.12b', 'C01', 'F', 'C01.R5', 'keyword list hard-coded and incomplete', (PARSER, '', "KEYWORD_LIST = '|'.join(keyword.kwlist)", "KEYWORD_LIST = 'if|else|for|in|not|and|or'"))
V('v01.12c', 'C01', 'F', 'C01.R5', 'function lookahead removed', (PARSER, '', r"(?: (?P<_FUNCTION> [_A-Za-z][_A-Za-z0-9.]*[_A-Za-z0-9]* ) \s* (?= \( ) )|", r"(?: (?P<_FUNCTION> [_A-Za-z][_A-Za-z0-9.]*[_A-Za-z0-9]* ) \s* \( )|"))
V('v01.13', 'C01', 'F', 'C01.R6', 'equations emitted in sorted order',
  (PARSER, 'build_model_definition', """        converter(s)
        for s in symbols
        # Only convert""", """        converter(s)
        for s in sorted(symbols, key=lambda x: str(x.name))
        # Only convert"""))
V('v01.14', 'C01', 'F', 'C01.R6', 'parse_model returns a set-ordered list', (PARSER, 'parse_model', 'return list(symbols.values()) + verbatim', 'return list(set(symbols.values())) + verbatim'))
V('v01.14', 'C01', 'F', 'C01.R1', "revert F27: names beginning with `_` rendered as self.__name (class-private mangling)",
  (PARSER, 'Term.code', """        if self.name.startswith('_'):
            return f"self.__dict__['_{self.name}']" + code[len(self.name):]

""", ''))
V('v01.s1', 'C01', 'S', None, 'f-strings -> concatenation', (PARSER, 'Term.__str__', "index = f'[t+{self.index_}]'", "index = '[t+' + str(self.index_) + ']'"))
V('v01.s2', 'C01', 'S', None, '.get -> conditional expression',
  (PARSER, 'Term.code', 'return replacement_function_names.get(code, code)', 'return replacement_function_names[code] if code in replacement_function_names else code'))
V('v01.s3', 'C01', 'S', None, 'PARAMETER and ERROR alternatives swapped',
  (PARSER, '', r"""            (?: \{ \s* (?P<_PARAMETER> [_A-Za-z][_A-Za-z0-9]* ) \s* \} )|
            (?: \< \s* (?P<_ERROR>     [_A-Za-z][_A-Za-z0-9]* ) \s* \> )|""", r"""            (?: \< \s* (?P<_ERROR>     [_A-Za-z][_A-Za-z0-9]* ) \s* \> )|
            (?: \{ \s* (?P<_PARAMETER> [_A-Za-z][_A-Za-z0-9]* ) \s* \} )|"""))
V('v01.s4', 'C01', 'S', None, 'str.format rendering', (PARSER, 'Term.__str__', "index = f'[t{self.index_}]'", "index = '[t{}]'.format(self.index_)"))
V('v01.s5', 'C01', 'S', None, 'sign test rewritten', (PARSER, 'Term.__str__', 'if self.index_ > 0:', 'if self.index_ >= 1:'))
V('v01.i1', 'C01', 'I', None, 'percent formatting', (PARSER, 'Term.__str__', "index = f'[t+{self.index_}]'", "index = '[t%+d]' % self.index_"))

# ---------------------------------------------------------------------------
# C03
# ---------------------------------------------------------------------------
V('v03.1', 'C03', 'F', 'C03.R3', 'min/max swapped between lags and leads',
  (PARSER, 'Symbol.combine', 'lags = resolve_by_type_pair(self.lags, other.lags, min)', 'lags = resolve_by_type_pair(self.lags, other.lags, max)'),
  (PARSER, 'Symbol.combine', 'leads = resolve_by_type_pair(self.leads, other.leads, max)', 'leads = resolve_by_type_pair(self.leads, other.leads, min)'))
V('v03.2', 'C03', 'F', 'C03.R3', 'implicit 0 dropped', (PARSER, 'Symbol.combine', 'outcome = function(this, that, 0)', 'outcome = function(this, that)'))
V('v03.3', 'C03', 'F', 'C03.R3', '(int, str) row returns 0', (PARSER, 'Symbol.combine', '                outcome = this\n', '                outcome = 0\n'))
V('v03.4', 'C03', 'F', 'C03.R2', 'ENDOGENOUS declared before EXOGENOUS',
  (PARSER, 'Type', '    EXOGENOUS = enum.auto()\n    ENDOGENOUS = enum.auto()\n', '    ENDOGENOUS = enum.auto()\n    EXOGENOUS = enum.auto()\n'))
V('v03.5', 'C03', 'F', 'C03.R2', 'promotion guard tests only self.type',
  (PARSER, 'Symbol.combine', """            if self.type not in (
                Type.VARIABLE,
                Type.EXOGENOUS,
                Type.ENDOGENOUS,
            ) or other.type not in (Type.VARIABLE, Type.EXOGENOUS, Type.ENDOGENOUS):""", """            if self.type not in (
                Type.VARIABLE,
                Type.EXOGENOUS,
                Type.ENDOGENOUS,
            ):"""))
V('v03.5b', 'C03', 'F', 'C03.R2', 'PARAMETER admitted to promotion',
  (PARSER, 'Symbol.combine', 'or other.type not in (Type.VARIABLE, Type.EXOGENOUS, Type.ENDOGENOUS):', 'or other.type not in (Type.VARIABLE, Type.EXOGENOUS, Type.ENDOGENOUS, Type.PARAMETER):'))
V('v03.6', 'C03', 'F', 'C03.R1', 'tags swapped',
  (PARSER, 'parse_equation_terms', 'lhs_terms = [replace_type(t, Type.ENDOGENOUS) for t in parse_terms(left)]', 'lhs_terms = [replace_type(t, Type.EXOGENOUS) for t in parse_terms(left)]'))
V('v03.6b', 'C03', 'F', 'C03.R1', 'split at the last =', (PARSER, 'parse_equation_terms', "left, right = equation.split('=', maxsplit=1)", "left, right = equation.rsplit('=', maxsplit=1)"))
V('v03.6c', 'C03', 'F', 'C03.R1', 'retag everything', (PARSER, 'parse_equation_terms', 'if term.type == Type.VARIABLE:', 'if term.type != Type.FUNCTION:'))
V('v03.7', 'C03', 'F', 'C03.R5', 'min_lags applied to explicit lags',
  (PARSER, 'build_model_definition', "            lags = 0\n\n        lags = max(lags, min_lags)\n", "            lags = 0\n\n    lags = max(lags, min_lags)\n"))
V('v03.8', 'C03', 'F', 'C03.R5', 'parameter/error filters swapped',
  (PARSER, 'build_model_definition', 'parameters = [s.name for s in symbols if s.type == Type.PARAMETER]', 'parameters = [s.name for s in symbols if s.type == Type.ERROR]'),
  (PARSER, 'build_model_definition', 'errors     = [s.name for s in symbols if s.type == Type.ERROR]', 'errors     = [s.name for s in symbols if s.type == Type.PARAMETER]'))
V('v03.8b', 'C03', 'F', 'C03.R5', 'leads from min', (PARSER, 'build_model_definition', 'leads = abs(max(s.leads for s in non_indexed_symbols))', 'leads = abs(min(s.leads for s in non_indexed_symbols))'))
V('v03.8c', 'C03', 'F', 'C03.R5', 'LAGS/LEADS fields crossed in the untyped template',
  (PARSER, 'MODEL_TEMPLATE_UNTYPED', '    LAGS = {lags}\n    LEADS = {leads}\n', '    LAGS = {leads}\n    LEADS = {lags}\n'))
V('v03.8d', 'C03', 'F', 'C03.R5', 'Fortran twin: lags without the floor', (FORTRAN, 'build_fortran_definition', '        lags = max(lags, min_lags)\n', ''))
V('v03.9', 'C03', 'F', 'C03.R7', 'default start uses leads', (IFACE, 'SolverMixin.iter_periods', 'start = self.span[self.lags]', 'start = self.span[self.leads]'))
V('v03.10', 'C03', 'F', 'C03.R7', 'default end = span[-leads]', (IFACE, 'SolverMixin.iter_periods', 'end = self.span[-1 - self.leads]', 'end = self.span[-self.leads]'))
V('v03.11', 'C03', 'F', 'C03.R4', 'double definition keeps the first silently',
  (PARSER, 'Symbol.combine', """                if old != new:
                    raise ParserError(
                        f"Endogenous variable '{self.name}' defined twice:"
                        f'\\n    {old}\\n    {new}'
                    )
""", """                pass
"""))
V('v03.12', 'C03', 'F', 'C03.R6', 'later mention replaces the earlier symbol position',
  (PARSER, 'parse_model', 'symbols[name] = symbols.get(name, symbol).combine(symbol)', 'symbols[name] = symbols.pop(name, symbol).combine(symbol)'))
V('v03.s1', 'C03', 'S', None, 'affine rewrite of default end', (IFACE, 'SolverMixin.iter_periods', 'end = self.span[-1 - self.leads]', 'end = self.span[-(self.leads + 1)]'))

# ---------------------------------------------------------------------------
# C13
# ---------------------------------------------------------------------------
V('v13.1', 'C13', 'F', 'C13.R1', 'revert F6: exec in the syntax check',
  (PARSER, 'parse_model', "                        compile(e, '<string>', 'exec')\n",
   "                        exec(e)\n"),
  (PARSER, 'parse_model', "                    except SyntaxError:\n                        problem_statements.append((i, statement, e))",
   "                    except NameError:\n                        pass\n                    except SyntaxError:\n                        problem_statements.append((i, statement, e))"))
V('v13.1b', 'C13', 'F', 'C13.R1', 'build_model execs a different text',
  (PARSER, 'build_model', 'exec(model_definition_string, globals(), locals_)', "exec(model_definition_string + chr(10) + symbols[0].code, globals(), locals_)"))
V('v13.2', 'C13', 'F', 'C13.R2', 'revert F7: unescaped template',
  (PARSER, 'parse_equation', """        pieces.append(escape_braces(equation[position:start]))
        pieces.append('{}')
        position = end

    pieces.append(escape_braces(equation[position:]))""", """        pieces.append(equation[position:start])
        pieces.append('{}')
        position = end

    pieces.append(equation[position:])"""))
V('v13.2b', 'C13', 'F', 'C13.R2', 'last piece unescaped',
  (PARSER, 'parse_equation', "    pieces.append(escape_braces(equation[position:]))", "    pieces.append(equation[position:])"))
V('v13.2c', 'C13', 'F', 'C13.R2', 'escape function escapes only {',
  (PARSER, 'parse_equation', "return text.replace('{', '{{').replace('}', '}}')", "return text.replace('{', '{{')"))
V('v13.3', 'C13', 'F', 'C13.R3', 'int() error not converted', (PARSER, 'parse_terms', 'except ValueError as e:', 'except KeyError as e:'))
V('v13.4', 'C13', 'F', 'C13.R5a', 'revert F11',
  (PARSER, 'parse_equation_terms', """    if not any(filter(lambda x: x.type == Type.ENDOGENOUS, lhs_terms)):
        raise ParserError(
            f"Failed to find a variable on the left-hand side of: '{equation}'"
        )
""", ''))
V('v13.5', 'C13', 'F', 'C13.R5b', 'revert F15',
  (PARSER, 'parse_model', """                    if s.type != Type.VERBATIM:
                        body = ast.parse(e).body

                        if not (
                            len(body) == 1
                            and isinstance(body[0], ast.Assign)
                            and len(body[0].targets) == 1
                            and isinstance(body[0].targets[0], ast.Subscript)
                        ):
                            problem_statements.append((i, statement, e))
                            break
""", ''))
V('v13.5b', 'C13', 'F', 'C13.R5b', 'statement-kind test forgets the single target',
  (PARSER, 'parse_model', "                            and len(body[0].targets) == 1\n", ''))
V('v13.5c', 'C13', 'F', 'C13.R5b', 'statement-kind failure ignored',
  (PARSER, 'parse_model', """                            and isinstance(body[0].targets[0], ast.Subscript)
                        ):
                            problem_statements.append((i, statement, e))
                            break""", """                            and isinstance(body[0].targets[0], ast.Subscript)
                        ):
                            pass"""))
V('v13.6', 'C13', 'F', 'C13.R7', 'revert F16',
  (PARSER, 'split_equations_iter', """    if not complete_verbatim_block:
        raise ParserError(
            'Failed to find closing code fence for the verbatim block '
            'beginning: ' + '\\n'.join(buffer)
        )
""", ''))
V('v13.6b', 'C13', 'F', 'C13.R7', 'unmatched-bracket check dropped',
  (PARSER, 'split_equations_iter', """    if unmatched_parentheses != 0:
        raise ParserError(
            'Failed to identify any equations in the following, '
            'owing to unmatched brackets: ' + '\\n'.join(buffer)
        )
""", ''))
V('v13.7', 'C13', 'F', 'C13.R4', 'new reserved attribute (new table entry, not the known finding)',
  (MODELS, 'BaseModel.__init__', "        self.add_attribute('engine', engine)\n", "        self.add_attribute('engine', engine)\n        self.add_attribute('solver', None)\n"))
V('v13.8', 'C13', 'F', 'C13.R3', 'misplaced bracket raises ValueError',
  (PARSER, 'split_equations_iter', """                raise ParserError(
                    'Found closing bracket before""", """                raise ValueError(
                    'Found closing bracket before"""))
V('v13.9', 'C13', 'F', 'C13.R3', 'new unchecked lookup: Type[...] on raw text',
  (PARSER, 'parse_equation_terms', "    left, right = equation.split('=', maxsplit=1)\n", "    left, right = equation.split('=', maxsplit=1)\n    _ = Type[left.strip()]\n"))
V('v13.10', 'C13', 'F', 'C13.R6', 'while loop in the splitter',
  (PARSER, 'split_equations_iter', "        hash_position = line.find('#')\n", "        hash_position = line.find('#')\n        while hash_position > 0 and line[hash_position - 1] == '\\\\':\n            hash_position = line.find('#', hash_position)\n"))
V('v13.11', 'C13', 'F', 'C13.R3', 'KEYWORD group renamed without a Type member',
  (PARSER, '', 'P<_KEYWORD>', 'P<_KEYWORDS>'))
V('v13.12', 'C13', 'F', 'C13.R8', "the 'always' filter is installed before catch_warnings is entered",
  (PARSER, 'parse_model', """                with warnings.catch_warnings(record=True) as w:
                    warnings.simplefilter('always')
""", """                warnings.simplefilter('always')
                with warnings.catch_warnings(record=True) as w:
"""))
V('v13.12b', 'C13', 'F', 'C13.R8', 'a string that names a file is read from disk',
  (PARSER, '', "import ast\n", "import ast\nimport os\n"),
  (PARSER, 'parse_model', "    problem_statements: List[Tuple[int, str, str]] = []\n", "    if os.path.isfile(model):\n        model = open(model).read()\n    problem_statements: List[Tuple[int, str, str]] = []\n"))
V('v13.s3', 'C13', 'S', None, 'path objects (never strings) are read from disk',
  (PARSER, '', "import ast\n", "import ast\nimport os\n"),
  (PARSER, 'parse_model', "    problem_statements: List[Tuple[int, str, str]] = []\n", "    if isinstance(model, os.PathLike):\n        with open(model) as f_:\n            model = f_.read()\n    problem_statements: List[Tuple[int, str, str]] = []\n"))
V('v13.14', 'C13', 'F', 'C13.R5b', 'revert F40: the code is compiled on its own only, not as a method body',
  (PARSER, 'parse_model', "                        with warnings.catch_warnings():\n                            warnings.simplefilter('ignore')  # Already recorded\n                            compile(\n                                'def _evaluate(self, t, *, errors, catch_first_error, iteration, **kwargs):\\n'\n                                '    pass\\n' + textwrap.indent(e, '    '),\n                                '<string>',\n                                'exec',\n                            )\n", ''))
V('v13.14b', 'C13', 'F', 'C13.R5b', 'the wrapper function lacks the parameter `t` (so `global t` passes the check)',
  (PARSER, 'parse_model', "'def _evaluate(self, t, *, errors, catch_first_error, iteration, **kwargs):\\n'", "'def _evaluate(self, *, errors, catch_first_error, iteration, **kwargs):\\n'"))
V('v13.s5', 'C13', 'S', None, 'the wrapper function is spelt with other defaults and a different name',
  (PARSER, 'parse_model', "'def _evaluate(self, t, *, errors, catch_first_error, iteration, **kwargs):\\n'", "'def body(self, t, errors=None, catch_first_error=True, iteration=None, **kwargs):\\n'"))
V('v13.13', 'C13', 'F', 'C13.R3', "revert F26: no guard at the split, fence alternative matches lines inside a statement",
  (PARSER, 'parse_equation_terms', """    if '=' not in equation:
        raise ParserError(f"Failed to parse equation (no '=' found): '{equation}'")
""", ''))
V('v13.s4', 'C13', 'S', None, 'no guard at the split, but the fence alternative is anchored to the whole statement',
  (PARSER, 'parse_equation_terms', """    if '=' not in equation:
        raise ParserError(f"Failed to parse equation (no '=' found): '{equation}'")
""", ''),
  (PARSER, '', "(?: ^ [`]{3,}\\n .*? [`]{3,} $ )|", "(?: \\A [`]{3,}\\n .*? [`]{3,} \\Z )|"))
V('v13.s1', 'C13', 'S', None, 'ast.parse via compile(PyCF_ONLY_AST)',
  (PARSER, 'parse_model', 'body = ast.parse(e).body', "body = compile(e, '<string>', 'exec', ast.PyCF_ONLY_AST).body"))
V('v13.s2', 'C13', 'S', None, 'escape inlined',
  (PARSER, 'parse_equation', "    pieces.append(escape_braces(equation[position:]))", "    pieces.append(equation[position:].replace('{', '{{').replace('}', '}}'))"))

# ---------------------------------------------------------------------------
# C14
# ---------------------------------------------------------------------------
V('v14.1', 'C14', 'F', 'C14.R1', 'module-level cache written by parse_equation',
  (PARSER, '', "def parse_equation(equation: str) -> List[Symbol]:", "_CACHE: Dict[str, int] = {}\n\n\ndef parse_equation(equation: str) -> List[Symbol]:"),
  (PARSER, 'parse_equation', "    # Extract the terms from the equation\n", "    _CACHE[equation] = len(_CACHE)\n    # Extract the terms from the equation\n"))
V('v14.1b', 'C14', 'F', 'C14.R1', 'previous statement carried into the next parse',
  (PARSER, 'parse_model', "        equation_symbols = parse_equation(statement)\n", "        equation_symbols = parse_equation(statement if not symbols_by_equation else statement + ' ')\n"))
V('v14.2', 'C14', 'F', 'C14.R2', 'comments stripped only from the first line of a buffer',
  (PARSER, 'split_equations_iter', "    for line in map(strip_comments, model.splitlines()):\n        buffer.append(line)\n",
   "    for line in model.splitlines():\n        if not buffer:\n            line = strip_comments(line)\n        buffer.append(line)\n"))
V('v14.2b', 'C14', 'F', 'C14.R2', 'blank statements are yielded', (PARSER, 'split_equations_iter', "            if equation.strip():  # Skip pure whitespace", "            if True:"))
V('v14.2c', 'C14', 'F', 'C14.R2', 'a line starting with # is returned whole (position <= 0 for == -1)',
  (PARSER, 'split_equations_iter', "        if hash_position == -1:\n", "        if hash_position <= 0:\n"))
V('v14.2d', 'C14', 'F', 'C14.R2', 'partition form that tests the comment text, not the separator',
  (PARSER, 'split_equations_iter', "        hash_position = line.find('#')\n        if hash_position == -1:\n            return line\n\n        return line[:hash_position].rstrip()\n",
   "        code, sep, comment = line.partition('#')\n        if not comment:\n            return line\n\n        return code.rstrip()\n"))
V('v14.s2', 'C14', 'S', None, 'partition form that tests the separator',
  (PARSER, 'split_equations_iter', "        hash_position = line.find('#')\n        if hash_position == -1:\n            return line\n\n        return line[:hash_position].rstrip()\n",
   "        code, sep, comment = line.partition('#')\n        if not sep:\n            return line\n\n        return code.rstrip()\n"))
V('v14.s3', 'C14', 'S', None, "membership test and split('#', 1)[0]",
  (PARSER, 'split_equations_iter', "        hash_position = line.find('#')\n        if hash_position == -1:\n            return line\n\n        return line[:hash_position].rstrip()\n",
   "        if '#' not in line:\n            return line\n\n        return line.split('#', 1)[0].rstrip()\n"))
V('v14.s4', 'C14', 'S', None, 'position < 0 and unconditional prefix via partition()[0]',
  (PARSER, 'split_equations_iter', "        if hash_position == -1:\n            return line\n\n        return line[:hash_position].rstrip()\n",
   "        if hash_position < 0:\n            return line\n\n        return line.partition('#')[0].rstrip()\n"))
V('v14.3', 'C14', 'F', 'C14.R3', r'no whitespace after {', (PARSER, '', r"(?: \{ \s* (?P<_PARAMETER>", r"(?: \{ (?P<_PARAMETER>"))
V('v14.3b', 'C14', 'F', 'C14.R5', r'no whitespace before ] of an index', (PARSER, '', r"(?: \[ \s* (?P<INDEX> .*? ) \s* \] )?", r"(?: \[ \s* (?P<INDEX> .*? ) \] )?"))
V('v14.4', 'C14', 'F', 'C14.R4', r'the \(\s+ pass is deleted', (PARSER, 'parse_equation', "    template = re.sub(r'\\(\\s+', '(', template)  # Remove space after opening brackets\n", ''))
V('v14.4b', 'C14', 'F', 'C14.R4', 'whitespace collapse runs last',
  (PARSER, 'parse_equation', "    template = re.sub(r'\\s+',   ' ', template)  # Remove repeated whitespace\n", ''),
  (PARSER, 'parse_equation', "    template = re.sub(r'\\s+\\)', ')', template)  # Remove space before closing brackets\n",
   "    template = re.sub(r'\\s+\\)', ')', template)  # Remove space before closing brackets\n    template = re.sub(r'\\s+',   ' ', template)\n"))

# ---------------------------------------------------------------------------
# C15
# ---------------------------------------------------------------------------
V('v15.1', 'C15', 'F', 'C15.R1', 'untyped _evaluate: catch_first_error=False',
  (PARSER, 'MODEL_TEMPLATE_UNTYPED', "def _evaluate(self, t, *, errors='raise', catch_first_error=True,", "def _evaluate(self, t, *, errors='raise', catch_first_error=False,"))
V('v15.2', 'C15', 'F', 'C15.R1', 'untyped CHECK = NAMES', (PARSER, 'MODEL_TEMPLATE_UNTYPED', '    CHECK = ENDOGENOUS\n', '    CHECK = NAMES\n'))
V('v15.3', 'C15', 'F', 'C15.R3', 'build_model drops min_leads', (PARSER, 'build_model', '        min_leads=min_leads,\n', ''))
V('v15.3b', 'C15', 'F', 'C15.R3', 'build_model crosses lags/leads', (PARSER, 'build_model', '        lags=lags,\n        leads=leads,\n', '        lags=leads,\n        leads=lags,\n'))
V('v15.4', 'C15', 'F', 'C15.R3', 'revert F14: handler raises only if failed_execs',
  (PARSER, 'build_model', """        raise BuildError(
            'Failed to `exec`ute the following `Symbol` object(s):\\n'
            + '\\n'.join('    {x}' for x in failed_execs)
        ) from e""", """        if failed_execs:
            raise BuildError(
                'Failed to `exec`ute the following `Symbol` object(s):\\n'
                + '\\n'.join('    {x}' for x in failed_execs)
            ) from e"""))
V('v15.4b', 'C15', 'F', 'C15.R3', 'CODE holds a re-generated text',
  (PARSER, 'build_model', "locals_['Model'].CODE = model_definition_string", "locals_['Model'].CODE = build_model_definition(symbols)"))
V('v15.5', 'C15', 'F', 'C15.R4', 'converter applied to ENDOGENOUS only',
  (PARSER, 'build_model_definition', 'if s.type in (Type.ENDOGENOUS, Type.VERBATIM)', 'if s.type in (Type.ENDOGENOUS,)'))
V('v15.5b', 'C15', 'F', 'C15.R4', 'converter output stripped', (PARSER, 'build_model_definition', "textwrap.indent(e, '        ') for e in expressions", "textwrap.indent(e.strip(), '        ') for e in expressions"))
V('v15.6', 'C15', 'F', 'C15.R2', 'template selection inverted', (PARSER, 'build_model_definition', '    if with_type_hints:\n        model_template = MODEL_TEMPLATE_TYPED', '    if not with_type_hints:\n        model_template = MODEL_TEMPLATE_TYPED'))
V('v15.s1', 'C15', 'S', None, 'same new keyword parameter in both templates',
  (PARSER, 'MODEL_TEMPLATE_TYPED', "def _evaluate(self, t: int, *, errors: str = 'raise',", "def _evaluate(self, t: int, *, verbose: bool = False, errors: str = 'raise',"),
  (PARSER, 'MODEL_TEMPLATE_UNTYPED', "def _evaluate(self, t, *, errors='raise',", "def _evaluate(self, t, *, verbose=False, errors='raise',"))

# ---------------------------------------------------------------------------
# C20
# ---------------------------------------------------------------------------
V('v20.1', 'C20', 'F', 'C20.R2', 'edge direction reversed', (TOOLS, 'symbols_to_graph', 'G.add_edge(x, n)', 'G.add_edge(n, x)'))
V('v20.2', 'C20', 'F', 'C20.R1', 'private term regex',
  (TOOLS, 'symbols_to_graph', "    G = nx.DiGraph()\n", "    G = nx.DiGraph()\n    term_re = re.compile(r'[_A-Za-z][_A-Za-z0-9]*(?:\\[.*?\\])?')\n"))
V('v20.3', 'C20', 'F', 'C20.R1', 'split at the last =', (TOOLS, 'symbols_to_graph', "lhs, rhs = e.split('=', maxsplit=1)", "lhs, rhs = e.rsplit('=', maxsplit=1)"))
V('v20.4', 'C20', 'F', 'C20.R2', 'both lists from the right-hand side', (TOOLS, 'symbols_to_graph', 'endogenous = [m.group(0) for m in term_re.finditer(lhs)]', 'endogenous = [m.group(0) for m in term_re.finditer(rhs)]'))
V('v20.5', 'C20', 'F', 'C20.R2', 'undirected graph', (TOOLS, 'symbols_to_graph', 'G = nx.DiGraph()', 'G = nx.Graph()'))
V('v20.6', 'C20', 'F', 'C20.R3', 'code formatted over a different term list',
  (PARSER, 'parse_equation', 'code = template.format(*[t.code for t in terms])', 'code = template.format(*[t.code for t in parse_terms(equation)])'))

V('v04.20', 'C04', 'F', 'C04.R2', 'revert F41: the Fortran wrapper copies by offset before the period is known to be feasible',
  (FORTRAN, 'FortranEngine.solve_t', "        # Error if the period at `t` cannot accommodate the model's lags and\n        # leads: check here (as well as in the Fortran code, below) to reject\n        # the call before copying any values by `offset`\n        t_position = t\n        if t_position < 0:\n            t_position += len(self.span)\n\n        if t_position < self.lags or t_position > len(self.span) - 1 - self.leads:\n            raise IndexError(\n                f'Position `t` ({t}) cannot accommodate the lags ({self.lags}) '\n                f'and leads ({self.leads}) of the current model instance, '\n                f'which has {len(self.span)} period(s) in its span'\n            )\n\n", ''))
V('v04.20b', 'C04', 'F', 'C04.R2', 'the wrapper checks the lags only (a period too close to the end is copied into, then rejected by the engine)',
  (FORTRAN, 'FortranEngine.solve_t', "        if t_position < self.lags or t_position > len(self.span) - 1 - self.leads:\n            raise IndexError(\n                f'Position `t` ({t}) cannot accommodate the lags ({self.lags}) '\n                f'and leads ({self.leads}) of the current model instance, '\n                f'which has {len(self.span)} period(s) in its span'\n            )\n\n        # Optionally", "        if t_position < self.lags:\n            raise IndexError(\n                f'Position `t` ({t}) cannot accommodate the lags ({self.lags}) '\n                f'and leads ({self.leads}) of the current model instance, '\n                f'which has {len(self.span)} period(s) in its span'\n            )\n\n        # Optionally"))
# ---------------------------------------------------------------------------
# C05
# ---------------------------------------------------------------------------
SV = 'SolverMixin.solve'
V('v05.1', 'C05', 'F', 'C05.R1', 'solve drops offset', (IFACE, SV, '                offset=offset,\n', ''))
V('v05.1b', 'C05', 'F', 'C05.R1', 'linker solve drops the selection', (LINKERS, 'BaseLinker.solve', '                submodels=submodels,\n', ''))
V('v05.2', 'C05', 'F', 'C05.R1', 'loop body swallows failures',
  (IFACE, SV, """            solved[i] = self.solve_t(
                t,
                min_iter=min_iter,
                max_iter=max_iter,
                tol=tol,
                offset=offset,
                failures=failures,
                errors=errors,
                catch_first_error=catch_first_error,
                **kwargs,
            )
""", """            try:
                solved[i] = self.solve_t(
                    t,
                    min_iter=min_iter,
                    max_iter=max_iter,
                    tol=tol,
                    offset=offset,
                    failures=failures,
                    errors=errors,
                    catch_first_error=catch_first_error,
                    **kwargs,
                )
            except Exception:
                continue
"""))
V('v05.2b', 'C05', 'F', 'C05.R1', 'stops at the first unsolved period',
  (IFACE, SV, "        return labels, indexes, solved", "        return labels, indexes, solved\n"),
  (IFACE, SV, "                **kwargs,\n            )\n\n        return", "                **kwargs,\n            )\n            if not solved[i]:\n                break\n\n        return"))
V('v05.2c', 'C05', 'F', 'C05.R1', 'labels and positions crossed in the result', (IFACE, SV, 'return labels, indexes, solved', 'return indexes, labels, solved'))
V('v05.3', 'C05', 'F', 'C05.R2', 'end exclusive', (IFACE, 'SolverMixin.iter_periods', 'self._locate_period_in_span(end) + 1', 'self._locate_period_in_span(end)'))
V('v05.3b', 'C05', 'F', 'C05.R2', 'labels slice shifted', (IFACE, 'SolverMixin.iter_periods', 'self.span[indexes.start : indexes.stop]', 'self.span[indexes.start + 1 : indexes.stop + 1]'))
V('v05.3c', 'C05', 'F', 'C05.R2', 'empty span tolerated', (IFACE, 'SolverMixin.iter_periods', """        if len(self.span) == 0:
            raise SolutionError('Object `span` is empty: No periods to solve')
""", ''))
V('v05.4', 'C05', 'F', 'C05.R3', 'start validation after iter_periods',
  (IFACE, SV, """        if start is not None and not isinstance(
            self._locate_period_in_span(start), int
        ):
            raise KeyError(start)

""", ''),
  (IFACE, SV, "        # fmt: off\n", "        if start is not None and not isinstance(\n            self._locate_period_in_span(start), int\n        ):\n            raise KeyError(start)\n\n        # fmt: off\n"))
V('v05.4b', 'C05', 'F', 'C05.R3', 'end validation dropped', (IFACE, SV, """        if end is not None and not isinstance(self._locate_period_in_span(end), int):
            raise KeyError(end)
""", ''))
V('v05.5', 'C05', 'F', 'C05.R5', 'revert F4', (CONT, 'VectorContainer._locate_period_in_span_fallback', 'return int(positions[0])', 'return positions[0]'))
V('v05.6', 'C05', 'F', 'C05.R1', 'solve_t given i instead of t', (IFACE, SV, "            solved[i] = self.solve_t(\n                t,", "            solved[i] = self.solve_t(\n                i,"))
V('v05.s1', 'C05', 'S', None, '.item() conversion', (CONT, 'VectorContainer._locate_period_in_span_fallback', 'return int(positions[0])', 'return positions[0].item()'))

# ---------------------------------------------------------------------------
# C09
# ---------------------------------------------------------------------------
SA = 'VectorContainer.__setattr__'
V('v09.10', 'C09', 'F', 'C09.R3', 'revert F29: (name, label) assignment does not check the name',
  (CONT, 'VectorContainer.__setitem__', """            name, index = key

            if name not in self.__dict__['index']:
                raise KeyError(f"'{name}' not recognised as a variable name")
""", """            name, index = key
"""))
V('v09.11', 'C09', 'F', 'C09.R3', 'revert F30: add_variable takes a storage slot that is in use',
  (CONT, 'VectorContainer.add_variable', """        if '_' + name in self.__dict__:
            raise DuplicateNameError(
                f"'{name}' cannot be a variable name: "
                f"'_{name}' is already in use as an attribute of the object"
            )
""", ''))
V('v09.12', 'C09', 'F', 'C09.R4', 'revert F36: the strict guard catches the `values` property',
  (CONT, 'VectorContainer.__setattr__', """        if isinstance(getattr(type(self), name, None), property):
            super().__setattr__(name, value)
            return
""", ''))
V('v09.1', 'C09', 'F', 'C09.R1', 'revert F3: no ndim test',
  (CONT, SA, """            if value_as_array.ndim != 1 or value_as_array.shape[0] != len(
                self.__dict__['span']
            ):""", """            if value_as_array.shape[0] != len(self.__dict__['span']):"""))
V('v09.1b', 'C09', 'F', 'C09.R1', 'length test dropped from __setattr__',
  (CONT, SA, """            if value_as_array.ndim != 1 or value_as_array.shape[0] != len(
                self.__dict__['span']
            ):""", """            if value_as_array.ndim != 1:"""))
V('v09.2', 'C09', 'F', 'C09.R1', 'add_variable without flatten', (CONT, 'VectorContainer.add_variable', 'value_as_array = np.array(value).flatten()', 'value_as_array = np.array(value)'))
V('v09.2b', 'C09', 'F', 'C09.R1', 'add_variable without the length check',
  (CONT, 'VectorContainer.add_variable', """        if value_as_array.shape[0] != len(self.__dict__['span']):
            raise DimensionError(
                f"Invalid assignment for '{name}': "
                f"must be either a single value or "
                f"a sequence of identical length to `span`"
                f"(expected {len(self.__dict__['span'])} elements)"
            )
""", ''))
V('v09.2c', 'C09', 'F', 'C09.R1', 'a new writer replaces a backing array',
  (CONT, 'VectorContainer.replace_values', "            self.__setitem__(k, v)", "            self.__dict__['_' + k] = np.asarray(v)"))
V('v09.3', 'C09', 'F', 'C09.R2', '__setattr__ without dtype', (CONT, SA, "value_as_array = np.array(value, dtype=self.__dict__['_' + name].dtype)", 'value_as_array = np.array(value)'))
V('v09.3b', 'C09', 'F', 'C09.R2', 'values setter without astype', (CONT, 'VectorContainer.values.setter', "name, series.astype(self.__getattribute__('_' + name).dtype)", 'name, series'))
V('v09.3c', 'C09', 'F', 'C09.R2', 'scalar path rebinds instead of [:] =', (CONT, SA, "            self.__dict__['_' + name][:] = value", "            self.__dict__['_' + name] = np.full(len(self.__dict__['span']), value)"))
V('v09.4', 'C09', 'F', 'C09.R3', 'index.append before the dimension check',
  (CONT, 'VectorContainer.add_variable', "        self.__dict__['_' + name] = value_as_array\n        self.__dict__['index'].append(name)\n", "        self.__dict__['_' + name] = value_as_array\n"),
  (CONT, 'VectorContainer.add_variable', "        # Check dimensions\n", "        self.__dict__['index'].append(name)\n\n        # Check dimensions\n"))
V('v09.4b', 'C09', 'F', 'C09.R3', 'names extended before the base call',
  (IFACE, 'ModelInterface.add_variable', "        super().add_variable(name, value, dtype=dtype)\n        self.__dict__['names'].append(name)\n", "        self.__dict__['names'].append(name)\n        super().add_variable(name, value, dtype=dtype)\n"))
V('v09.5', 'C09', 'F', 'C09.R4', 'strict guard ignores existing attributes',
  (CONT, SA, "            and name not in self.__dict__['_attributes']  # TODO: Check inclusion here\n", ''))
V('v09.5b', 'C09', 'F', 'C09.R4', 'strict guard moved after the attribute branch',
  (CONT, SA, """        # If `name` doesn't refer to a container variable...
        if name not in self.__dict__['index']:
            # ...check for an existing attribute and modify...
            if name in self.__dict__['_attributes']:
                super().__setattr__(name, value)

            # ...otherwise, add as a new attribute
            else:
                self.add_attribute(name, value)

            return
""", ''),
  (CONT, SA, "        # Error on attempt to add an attribute if `strict=True`\n", """        if name not in self.__dict__['index']:
            if name in self.__dict__['_attributes']:
                super().__setattr__(name, value)
            else:
                self.add_attribute(name, value)
            return

        # Error on attempt to add an attribute if `strict=True`
"""))
V('v09.6', 'C09', 'F', 'C09.R5', 'ModelInterface.size counts index', (IFACE, 'ModelInterface.size', "len(self.__dict__['names']) * len(self.__dict__['span'])", "len(self.__dict__['index']) * len(self.__dict__['span'])"))
V('v09.s1', 'C09', 'S', None, 'flatten -> ravel', (CONT, 'VectorContainer.add_variable', 'np.array(value).flatten()', 'np.array(value).ravel()'))
V('v09.s2', 'C09', 'S', None, 'guard written with shape tuple', (CONT, SA, """            if value_as_array.ndim != 1 or value_as_array.shape[0] != len(
                self.__dict__['span']
            ):""", """            if value_as_array.shape != (len(self.__dict__['span']),):"""))

V('v09.13', 'C09', 'F', 'C09.R3', 'revert F44: add_attribute takes a name that is a storage slot',
  (CONT, 'VectorContainer.add_attribute', '        if name in self.__dict__:\n            raise DuplicateNameError(\n                f"Name \'{name}\' is already in use in current object e.g. to store a variable\'s values"\n            )\n\n', ''))
V('v09.s7', 'C09', 'S', None, 'the free-name test spelt with hasattr-free membership in vars(self)',
  (CONT, 'VectorContainer.add_attribute', '        if name in self.__dict__:\n            raise DuplicateNameError(\n                f"Name', '        if not (name not in self.__dict__):\n            raise DuplicateNameError(\n                f"Name'))
# ---------------------------------------------------------------------------
# C10
# ---------------------------------------------------------------------------
RS = 'VectorContainer._resolve_period_slice'
V('v10.1', 'C10', 'F', 'C10.R1', '+1 also for slice hits',
  (CONT, RS, """        if isinstance(stop_location, slice):
            stop_location = stop_location.stop
        else:
            # Only extend the limit for a regular index (`pandas`, for example,
            # already adjusts for this in its own API)
            # TODO: Check how generally this treatment applies i.e. beyond
            #       `pandas`
            stop_location += 1
""", """        if isinstance(stop_location, slice):
            stop_location = stop_location.stop
        stop_location += 1
"""))
V('v10.2', 'C10', 'F', 'C10.R1', 'no +1', (CONT, RS, "            stop_location += 1\n", "            pass\n"))
V('v10.2b', 'C10', 'F', 'C10.R1', 'open stop defaults to span[-2]', (CONT, RS, "stop = self.__dict__['span'][-1]", "stop = self.__dict__['span'][-2]"))
V('v10.2c', 'C10', 'F', 'C10.R1', 'stop located from start', (CONT, RS, 'stop_location = self._locate_period_in_span(stop)', 'stop_location = self._locate_period_in_span(start)'))
V('v10.2d', 'C10', 'F', 'C10.R1', 'slice hit for start takes .stop', (CONT, RS, 'start_location = start_location.start', 'start_location = start_location.stop'))
V('v10.3', 'C10', 'F', 'C10.R2', 'set ignores the step', (CONT, 'VectorContainer.__setitem__', "self.__dict__['_' + name][start_location:stop_location:step] = value", "self.__dict__['_' + name][start_location:stop_location] = value"))
V('v10.3b', 'C10', 'F', 'C10.R2', 'get indexes location + 1', (CONT, 'VectorContainer.__getitem__', 'return values[location]', 'return values[location + 1]'))
V('v10.4', 'C10', 'F', 'C10.R3', 'handler returns 0', (CONT, 'VectorContainer._locate_period_in_span', """                    try:
                        return index_function(period)
                    except Exception as e:
                        raise KeyError(period) from e""", """                    try:
                        return index_function(period)
                    except Exception as e:
                        return 0"""))
V('v10.9', 'C10', 'F', 'C10.R3', "revert F28: tuple labels broadcast against a NumPy span",
  (CONT, 'VectorContainer._locate_period_in_span_fallback', "np.asarray(span, dtype=object) == target).nonzero()", "np.asarray(span, dtype=object) == period).nonzero()"))
V('v10.s4', 'C10', 'S', None, 'fallback compares the label with each element in turn',
  (CONT, 'VectorContainer._locate_period_in_span_fallback', "locations = np.asarray(np.asarray(span, dtype=object) == target).nonzero()", "locations = np.asarray([x == period for x in span], dtype=bool).nonzero()"))
V('v10.4b', 'C10', 'F', 'C10.R3', 'fallback returns the first of several matches', (CONT, 'VectorContainer._locate_period_in_span_fallback', 'if len(positions) == 1:', 'if len(positions) >= 1:'))
V('v10.4c', 'C10', 'F', 'C10.R3', 'fallback: no match returns -1', (CONT, 'VectorContainer._locate_period_in_span_fallback', """        if len(positions) == 0:
            raise KeyError(period)
""", """        if len(positions) == 0:
            return -1
"""))

# ---------------------------------------------------------------------------
# C11
# ---------------------------------------------------------------------------
V('v11.1', 'C11', 'F', 'C11.R3', 'revert F2 (CHECK by reference)', (MODELS, 'BaseModel.__init__', "self.add_attribute('check', copy.deepcopy(self.CHECK))", "self.add_attribute('check', self.CHECK)"))
V('v11.1b', 'C11', 'F', 'C11.R3', 'revert F2 in the linker', (LINKERS, 'BaseLinker.__init__', "self.add_attribute('endogenous', copy.deepcopy(self.ENDOGENOUS))", "self.add_attribute('endogenous', self.ENDOGENOUS)"))
V('v11.2', 'C11', 'F', 'C11.R3', 'names = self.NAMES', (IFACE, 'ModelInterface.__init__', 'names = copy.deepcopy(self.NAMES)', 'names = self.NAMES'))
V('v11.3', 'C11', 'F', 'C11.R3', 'preferred_names without copy', (XCOMMON, 'AliasMixin.__init__', 'preferred_names = copy.deepcopy(self.PREFERRED_NAMES)', 'preferred_names = self.PREFERRED_NAMES'))
V('v11.3b', 'C11', 'F', 'C11.R3', 'revert F13: Trace keeps TRACE_VARIABLES', (XMODEL, 'TracerMixin.trace_t', 'Trace(list(names))', 'Trace(names)'))
V('v11.4', 'C11', 'F', 'C11.R2', 'copy stores values by reference',
  (CONT, 'VectorContainer.copy', 'copied.__dict__.update({k: copy.deepcopy(v) for k, v in self.__dict__.items()})', 'copied.__dict__.update({k: v for k, v in self.__dict__.items()})'))
V('v11.4b', 'C11', 'F', 'C11.R2', 'linker copy shares its submodels',
  (LINKERS, 'BaseLinker.copy', """            submodels={
                copy.deepcopy(k): copy.deepcopy(v)
                for k, v in self.__dict__['submodels'].items()
            }""", """            submodels=self.__dict__['submodels']"""))
V('v11.5', 'C11', 'F', 'C11.R1', 'BaseLinker loses __copy__', (LINKERS, 'BaseLinker', '    __copy__ = copy\n', ''))
V('v11.5b', 'C11', 'F', 'C11.R1', '__deepcopy__ returns self', (CONT, 'VectorContainer.__deepcopy__', 'return self.copy()', 'return self'))
V('v11.10', 'C11', 'F', 'C11.R2', "revert F39: copy() rebuilds the linker without its name (the constructor checks it against the submodel ids)",
  (LINKERS, 'BaseLinker.copy', "            name=copy.deepcopy(self.__dict__['name']),\n", ''))
V('v11.6', 'C11', 'S', None, "linker copy also excludes 'name' from the __dict__ copy (it is handed to the constructor since F39)",
  (LINKERS, 'BaseLinker.copy', "if k not in ['submodels']", "if k not in ['submodels', 'name']"))
V('v11.7', 'C11', 'F', 'C11.R5', 'eval updates the package helper table', (CONT, 'VectorContainer.eval', '        locals_.update({x: self[x] for x in self.index})', '        _builtins.update({x: self[x] for x in self.index})\n        locals_.update(_builtins)'))
V('v11.8', 'C11', 'F', 'C11.R4', 'mutable default argument', (CONT, 'VectorContainer.replace_values', 'def replace_values(self, **new_values) -> None:', 'def replace_values(self, _seen=[], **new_values) -> None:'))
V('v11.9', 'C11', 'F', 'C11.R5', 'alias registered on the class dict', (XCOMMON, 'AliasMixin._resolve_alias', 'return self.aliases.get(alias, alias)', 'self.ALIASES.setdefault(alias, alias)\n        return self.aliases.get(alias, alias)'))
V('v11.s1', 'C11', 'S', None, 'list() instead of deepcopy', (MODELS, 'BaseModel.__init__', "copy.deepcopy(self.CHECK)", "list(self.CHECK)"))
V('v11.s2', 'C11', 'S', None, 'ALIASES aliased then rebuilt by a comprehension',
  (XCOMMON, 'AliasMixin.__init__', 'aliases = copy.deepcopy(self.ALIASES)', 'aliases = dict(self.ALIASES)'))
V('v11.s3', 'C11', 'S', None, 'ALIASES read without copy but rebuilt before the store', (XCOMMON, 'AliasMixin.__init__', 'aliases = copy.deepcopy(self.ALIASES)', 'aliases = self.ALIASES'))

# ---------------------------------------------------------------------------
# C12
# ---------------------------------------------------------------------------
RX = 'VectorContainer.reindex'
V('v12.1', 'C12', 'F', 'C12.R5', 'map consumed crossed', (CONT, RX, 'reindexed[name][new] = old_values[old]', 'reindexed[name][old] = old_values[new]'))
V('v12.1f', 'C12', 'F', 'C12.R5', 'revert F31: old values copied from the original (object series shared)', (CONT, RX, 'reindexed[name][new] = old_values[old]', 'reindexed[name][new] = self[name][old]'))
V('v12.s5', 'C12', 'S', None, 'old values copied from the original, element by element deep-copied', (CONT, RX, 'reindexed[name][new] = old_values[old]', 'reindexed[name][new] = copy.deepcopy(self[name][old])'))
V('v12.1b', 'C12', 'F', 'C12.R5', 'map built old -> new', (CONT, RX, 'positions[i] = self._locate_period_in_span(period)', 'positions[self._locate_period_in_span(period)] = i'))
V('v12.9', 'C12', 'F', 'C12.R7', 'revert F37: the pandas reindex re-fills every variable on default arguments',
  (XMODEL, 'PandasIndexFeaturesMixin.reindex', """            if fill_method is None and fill_values.get(name, fill_value) is None:
                continue
""", ''))
V('v12.2', 'C12', 'F', 'C12.R2', 'integer default -1', (CONT, RX, "                    value = 0\n", "                    value = -1\n"))
V('v12.2b', 'C12', 'F', 'C12.R2', 'bool fill not coerced', (CONT, RX, "                    value = bool(value)\n", "                    value = value\n"))
V('v12.2c', 'C12', 'F', 'C12.R2', 'str default None', (CONT, RX, "                    value = ''\n", "                    value = 'None'\n"))
V('v12.3', 'C12', 'F', 'C12.R2', 'iterations default 0', (MODELS, 'BaseModel.reindex', "fill_values.get('iterations', -1)", "fill_values.get('iterations', 0)"))
V('v12.3b', 'C12', 'F', 'C12.R2', "status default overrides the caller's", (MODELS, 'BaseModel.reindex', "fill_values['status'] = fill_values.get('status', SolutionStatus.UNSOLVED.value)", "fill_values['status'] = SolutionStatus.UNSOLVED.value"))
V('v12.3c', 'C12', 'F', 'C12.R2', 'BaseModel.reindex drops fill_value', (MODELS, 'BaseModel.reindex', 'span, fill_value=fill_value, strict=strict, **fill_values', 'span, strict=strict, **fill_values'))
V('v12.4', 'C12', 'F', 'C12.R1', 'reindexed = self', (CONT, RX, 'reindexed = self.copy()', 'reindexed = self'))
V('v12.4b', 'C12', 'F', 'C12.R1', 'original span replaced too', (CONT, RX, "        reindexed.__dict__['span'] = span  # Use to bypass `strict`\n", "        reindexed.__dict__['span'] = span  # Use to bypass `strict`\n        self.__dict__['span'] = span\n"))
V('v12.5', 'C12', 'F', 'C12.R4', 'strict check after the copy loop',
  (CONT, RX, """        if strict:
            # Check for variables in `fill_values` but not in the object index
            undefined_variables = set(fill_values.keys()) - set(self.index)
            if undefined_variables:
                raise KeyError(
                    f"Found {len(undefined_variables)} undefined variable(s) "
                    f"with `strict=True`: {', '.join(sorted(undefined_variables))}"
                )
""", ''),
  (CONT, RX, "        return reindexed", """        if strict:
            undefined_variables = set(fill_values.keys()) - set(self.index)
            if undefined_variables:
                raise KeyError(f"Found {len(undefined_variables)} undefined variable(s)")

        return reindexed"""))
V('v12.5b', 'C12', 'F', 'C12.R4', 'unknown fills rejected regardless of strict', (CONT, RX, "        if strict:\n            # Check for variables", "        if True:\n            # Check for variables"))
V('v12.6', 'C12', 'F', 'C12.R3', 'per-variable fill ignored', (CONT, RX, 'value = fill_values.get(name, fill_value)', 'value = fill_value'))
V('v12.7', 'C12', 'F', 'C12.R2', 'new arrays sized by the old span', (CONT, RX, 'len(span), value, dtype=self[name].dtype', 'len(self.span), value, dtype=self[name].dtype'))

# ---------------------------------------------------------------------------
# C16
# ---------------------------------------------------------------------------
EV = 'VectorContainer.eval'
RI = 'VectorContainer._resolve_expression_indexes'
V('v16.9', 'C16', 'F', 'C16.R7', 'revert F38: indexes without backticks are re-read with int()',
  (CONT, 'VectorContainer._resolve_expression_indexes', """            if match.group(1) is None or '`' not in match.group(1):
                return match.group(0)
""", ''))
V('v16.1', 'C16', 'F', 'C16.R1', 'shift fills the input in place', (FUNCS, 'shift', 'shifted = np.roll(x, shift=p)', 'shifted = x'))
V('v16.1b', 'C16', 'F', 'C16.R1', 'diff refills the input', (FUNCS, 'diff', '        differenced = x - lag(x, d, fill_value=fill_value)\n        differenced[:d] = fill_value', '        differenced = x - lag(x, d, fill_value=fill_value)\n        x[:d] = fill_value'))
V('v16.2', 'C16', 'F', 'C16.R2', 'lead shifts to the right', (FUNCS, 'lead', 'return shift(x, -p, fill_value=fill_value)', 'return shift(x, p, fill_value=fill_value)'))
V('v16.2b', 'C16', 'F', 'C16.R2', 'lag drops fill_value', (FUNCS, 'lag', 'return shift(x, p, fill_value=fill_value)', 'return shift(x, p)'))
V('v16.2c', 'C16', 'F', 'C16.R2', 'shift refills the wrong end for lags', (FUNCS, 'shift', '        shifted[:p] = fill_value\n', '        shifted[p:] = fill_value\n'))
V('v16.2d', 'C16', 'F', 'C16.R2', 'dlog differences x, not log(x)', (FUNCS, 'dlog', 'return diff(log(x), d=d, fill_value=fill_value)', 'return diff(x, d=d, fill_value=fill_value)'))
V('v16.2e', 'C16', 'F', 'C16.R2', 'diff subtracts a lead', (FUNCS, 'diff', '        differenced = x - lag(x, d, fill_value=fill_value)\n        differenced[:d]', '        differenced = x - lag(x, -d, fill_value=fill_value)\n        differenced[:d]'))
V('v16.3', 'C16', 'F', 'C16.R3', 'caller locals applied before the variables',
  (CONT, EV, """        # Update with model variables
        locals_.update({x: self[x] for x in self.index})

        # Add user locals as needed
        if locals is not None:
            locals_.update(locals)
""", """        # Add user locals as needed
        if locals is not None:
            locals_.update(locals)

        # Update with model variables
        locals_.update({x: self[x] for x in self.index})
"""))
V('v16.4', 'C16', 'F', 'C16.R7', 'revert F5', (CONT, RI, 'if stop_is_label and isinstance(stop, int):', 'if isinstance(stop, int):'))
V('v16.4b', 'C16', 'F', 'C16.R7', 'label test taken after resolution',
  (CONT, RI, "            stop_is_label = '`' in stop\n\n", ''),
  (CONT, RI, "            # Adjust for closed intervals on the right-hand side (mirroring\n", "            stop_is_label = '`' in str(stop)\n\n            # Adjust for closed intervals on the right-hand side (mirroring\n"))
V('v16.5', 'C16', 'F', 'C16.R6', 'handler raises KeyError', (CONT, EV, """                raise AttributeError(
                    f"Object has no attribute '{name}'. Did you mean: '{suggestions[0]}'?"
                ) from e""", """                raise KeyError(
                    f"Object has no attribute '{name}'. Did you mean: '{suggestions[0]}'?"
                ) from e"""))
V('v16.6', 'C16', 'F', 'C16.R4', 'helper table used without a copy', (CONT, EV, 'builtins = copy.deepcopy(_builtins)', 'builtins = _builtins'))
V('v16.7', 'C16', 'F', 'C16.R5', 'eval caches the expression on the container', (CONT, EV, "        if '`' in expression:\n", "        self.__dict__['_last_expression'] = expression\n        if '`' in expression:\n"))
V('v16.s1', 'C16', 'S', None, 'helper table copied with dict()', (CONT, EV, 'builtins = copy.deepcopy(_builtins)', 'builtins = dict(_builtins)'))
V('v16.s2', 'C16', 'S', None, 'roll written positionally', (FUNCS, 'shift', 'shifted = np.roll(x, shift=p)', 'shifted = np.roll(x, p)'))

# ---------------------------------------------------------------------------
# C17
# ---------------------------------------------------------------------------
TM = 'TracerMixin'
V('v17.1', 'C17', 'F', 'C17.R4', 'pass snapshot taken before the evaluation',
  (XMODEL, f'{TM}._evaluate', """        super()._evaluate(
            t, *args, trace=trace, reset=reset, iteration=iteration, **kwargs
        )

        # Store results *after* each iteration
        if trace:
            self.trace_t(t, iteration, *args, trace=trace, reset=reset, **kwargs)""", """        if trace:
            self.trace_t(t, iteration, *args, trace=trace, reset=reset, **kwargs)

        super()._evaluate(
            t, *args, trace=trace, reset=reset, iteration=iteration, **kwargs
        )"""))
V('v17.2', 'C17', 'F', 'C17.R1', 'solve_t drops the base result', (XMODEL, f'{TM}.solve_t', 'return super().solve_t(t, *args, trace=trace, reset=reset, **kwargs)', 'super().solve_t(t, *args, trace=trace, reset=reset, **kwargs)\n        return True'))
V('v17.3', 'C17', 'F', 'C17.R1', 'solve_t_before drops iteration',
  (XMODEL, f'{TM}.solve_t_before', 't, *args, trace=trace, reset=reset, iteration=iteration, **kwargs', 't, *args, trace=trace, reset=reset, **kwargs'))
V('v17.4', 'C17', 'F', 'C17.R2', 'end snapshot outside if trace',
  (XMODEL, f'{TM}.solve_t_after', "        if trace:\n            self.trace_t(t, 'end', *args, trace=trace, reset=reset, **kwargs)", "        self.trace_t(t, 'end', *args, trace=trace, reset=reset, **kwargs)"))
V('v17.5', 'C17', 'F', 'C17.R3', 'trace_t also writes status', (XMODEL, f'{TM}.trace_t', "        # Add the results to the `Trace`\n", "        self.status[t] = '-'\n        # Add the results to the `Trace`\n"))
V('v17.6', 'C17', 'F', 'C17.R1', 'base _evaluate wrapped in try/except',
  (XMODEL, f'{TM}._evaluate', """        super()._evaluate(
            t, *args, trace=trace, reset=reset, iteration=iteration, **kwargs
        )
""", """        try:
            super()._evaluate(
                t, *args, trace=trace, reset=reset, iteration=iteration, **kwargs
            )
        except Exception:
            pass
"""))
V('v17.7', 'C17', 'F', 'C17.R1', 'base solve_t skipped when tracing a solved period',
  (XMODEL, f'{TM}.solve_t', "        return super().solve_t(", "        if trace and self.status[t] == '.':\n            return True\n        return super().solve_t("))
V('v17.8', 'C17', 'F', 'C17.R4', "'before' snapshot relabelled 'start'",
  (XMODEL, f'{TM}.solve_t_before', "self.trace_t(t, 'before', *args", "self.trace_t(t, 'start', *args"))
V('v17.9', 'C17', 'F', 'C17.R3', 'snapshot aliases the series', (XMODEL, f'{TM}.trace_t', 'results = np.array([[self[x][t]] for x in names])', 'results = self.values[:, t : t + 1]'))
V('v17.10', 'C17', 'F', 'C17.R1', 'reset forced on', (XMODEL, f'{TM}.solve_t_after', 't, *args, trace=trace, reset=reset, iteration=iteration, **kwargs', 't, *args, trace=trace, reset=True, iteration=iteration, **kwargs'))

V('v17.20', 'C17', 'F', 'C17.R6', 'revert F43: the Trace of a period is kept whatever names it was created with',
  (XMODEL, 'TracerMixin.trace_t', "        if current.is_empty() or reset or list(current.names) != list(names):", "        if current.is_empty() or reset:"))
V('v17.20b', 'C17', 'F', 'C17.R6', 'the lengths of the name lists are compared, not the names',
  (XMODEL, 'TracerMixin.trace_t', "        if current.is_empty() or reset or list(current.names) != list(names):", "        if current.is_empty() or reset or len(current.names) != len(results):"))
V('v17.s6', 'C17', 'S', None, 'the names are compared as tuples, through a local',
  (XMODEL, 'TracerMixin.trace_t', "        if current.is_empty() or reset or list(current.names) != list(names):", "        same = tuple(current.names) == tuple(names)\n        if current.is_empty() or reset or not same:"))
V('v17.6b', 'C17', 'F', 'C17.R6', 'kept Trace: names compared as sets (order forgotten)',
  (XMODEL, 'TracerMixin.trace_t', "list(current.names) != list(names)", "set(current.names) != set(names)"))
V('v17.6c', 'C17', 'F', 'C17.R6', 'kept Trace: names compared sorted',
  (XMODEL, 'TracerMixin.trace_t', "list(current.names) != list(names)", "sorted(current.names) != sorted(names)"))
V('v17.s7', 'C17', 'S', None, 'kept Trace: names compared as tuples',
  (XMODEL, 'TracerMixin.trace_t', "list(current.names) != list(names)", "tuple(current.names) != tuple(names)"))
# ---------------------------------------------------------------------------
# C18
# ---------------------------------------------------------------------------
AM = 'AliasMixin'
V('v18.9', 'C18', 'F', 'C18.R3', 'revert F32: add_variable under an alias name creates storage of its own',
  (XCOMMON, 'AliasMixin.add_variable', "        super().add_variable(self._resolve_alias(name), *args, **kwargs)", "        super().add_variable(name, *args, **kwargs)"))
V('v18.1', 'C18', 'F', 'C18.R1', '__setitem__ tuple path unresolved',
  (XCOMMON, f'{AM}.__setitem__', "key = tuple([self._resolve_alias(name)] + list(index))", "key = tuple([name] + list(index))"))
V('v18.1b', 'C18', 'F', 'C18.R1', '__getattr__ unresolved', (XCOMMON, f'{AM}.__getattr__', 'return super().__getattr__(self._resolve_alias(name))', 'return super().__getattr__(name)'))
V('v18.1c', 'C18', 'F', 'C18.R1', '__getitem__ drops the index part', (XCOMMON, f'{AM}.__getitem__', "key = tuple([self._resolve_alias(name)] + list(index))", "key = self._resolve_alias(name)"))
V('v18.1d', 'C18', 'F', 'C18.R1', 'resolver falls back to None', (XCOMMON, f'{AM}._resolve_alias', 'return self.aliases.get(alias, alias)', 'return self.aliases.get(alias)'))
V('v18.2', 'C18', 'F', 'C18.R2', 'constructor kwargs unresolved', (XCOMMON, f'{AM}.__init__', '*args, **{self._resolve_alias(k): v for k, v in kwargs.items()}', '*args, **kwargs'))
V('v18.2b', 'C18', 'F', 'C18.R2', 'chain shortened only once',
  (XCOMMON, f'{AM}.__init__', "        while True:\n", "        for _ in range(1):\n"))
V('v18.3', 'C18', 'F', 'C18.R3', 'aliases get their own series',
  (XCOMMON, f'{AM}.__init__', "        self.__dict__['preferred_names'] = preferred_names\n", "        self.__dict__['preferred_names'] = preferred_names\n        self.__dict__['_alias_store'] = {a: None for a in aliases}\n"))
V('v18.4', 'C18', 'F', 'C18.R4', 'replace_values writes the backing store directly',
  (CONT, 'VectorContainer.replace_values', "            self.__setitem__(k, v)", "            self.__dict__['_' + k][:] = v"))
V('v18.5', 'C18', 'F', 'C18.R5', 'export drops aliased columns before renaming',
  (XCOMMON, f'{AM}.to_dataframe', "            return df.rename(columns={v: k for k, v in self.aliases.items()})", "            return df.drop(columns=list(self.aliases.values())[1:]).rename(columns={v: k for k, v in self.aliases.items()})"))
V('v18.5b', 'C18', 'F', 'C18.R5', 'export duplicates columns under their aliases',
  (XCOMMON, f'{AM}.to_dataframe', "        return df.rename(columns=replacements)", "        for k_, v_ in replacements.items():\n            df[v_] = df[k_]\n        return df"))

# ---------------------------------------------------------------------------
# C19
# ---------------------------------------------------------------------------
V('v19.9', 'C19', 'F', 'C19.R3', "revert F33: a submodel id may equal the linker's name",
  (LINKERS, 'BaseLinker.__init__', """        if name in submodels:
            raise InitialisationError(
                f"Linker name '{name}' is also the identifier of a submodel: "
                f'set a different `name` (or identifier)'
            )
""", ''))
V('v19.1', 'C19', 'F', 'C19.R1', 'revert F8',
  (TOOLS, 'dataframe_to_symbols', """        for key in ('name', 'equation', 'code'):
            if not isinstance(entry[key], str):
                entry[key] = None

""", ''))
V('v19.1b', 'C19', 'F', 'C19.R1', 'leads no longer restored', (TOOLS, 'dataframe_to_symbols', "        entry['leads'] = convert_to_int_or_none(entry['leads'])\n", ''))
V('v19.2', 'C19', 'F', 'C19.R2', 'frame built from the stacked values',
  (TOOLS, 'model_to_dataframe', 'df = DataFrame({k: model[k] for k in names}, index=model.span)', 'df = DataFrame(model.values.T, columns=model.names, index=model.span)'))
V('v19.3', 'C19', 'F', 'C19.R2', 'underscore filter inverted', (TOOLS, 'model_to_dataframe', '    if not include_internal:\n', '    if include_internal:\n'))
V('v19.3b', 'C19', 'F', 'C19.R2', 'status column under the iterations flag', (TOOLS, 'model_to_dataframe', "    if status:\n        df['status'] = model.status", "    if iterations:\n        df['status'] = model.status"))
V('v19.3c', 'C19', 'F', 'C19.R2', 'iterations column holds status', (TOOLS, 'model_to_dataframe', "df['iterations'] = model.iterations", "df['iterations'] = model.status"))
V('v19.4', 'C19', 'F', 'C19.R3', 'submodels always exported with status',
  (TOOLS, 'linker_to_dataframes', """        results[name] = model.to_dataframe(
            status=status, iterations=iterations, include_internal=include_internal""", """        results[name] = model.to_dataframe(
            status=True, iterations=iterations, include_internal=include_internal"""))
V('v19.4b', 'C19', 'F', 'C19.R3', 'BaseModel.to_dataframe crosses flags', (MODELS, 'BaseModel.to_dataframe', '            status=status,\n            iterations=iterations,', '            status=iterations,\n            iterations=status,'))
V('v19.5', 'C19', 'F', 'C19.R4', 'from_dataframe always lists the index',
  (MODELS, 'BaseModel.from_dataframe', """        if not isinstance(
            index, (DatetimeIndex, MultiIndex, PeriodIndex, TimedeltaIndex)
        ):
            index = list(index)""", """        index = list(index)"""))
V('v19.5b', 'C19', 'F', 'C19.R4', 'columns passed positionally lose their names', (MODELS, 'BaseModel.from_dataframe', '**{k: v.values for k, v in data.items()}', '**{k.lower(): v.values for k, v in data.items()}'))

# ---------------------------------------------------------------------------
# C07
# ---------------------------------------------------------------------------
FE_ = 'FortranEngine'
V('v07.1', 'C07', 'F', 'C07.R3', 'revert F9 in solve_t', (FORTRAN, f'{FE_}.solve_t', '[self.names.index(x) + 1 for x in self.check]', '[self.names.index(x) for x in self.check]'))
V('v07.1b', 'C07', 'F', 'C07.R3', 'revert F9 in solve', (FORTRAN, f'{FE_}.solve', '[self.names.index(x) + 1 for x in self.check]', '[self.names.index(x) for x in self.check]'))
V('v07.1c', 'C07', 'F', 'C07.R3', '_evaluate passes zero-based t', (FORTRAN, f'{FE_}._evaluate', 'self.values.astype(float), t + 1', 'self.values.astype(float), t'))
V('v07.2', 'C07', 'F', 'C07.R2', 'min_iter / max_iter swapped', (FORTRAN, f'{FE_}.solve_t', '            min_iter,\n            max_iter,\n            tol,', '            max_iter,\n            min_iter,\n            tol,'))
V('v07.3', 'C07', 'F', 'C07.R2', 'results unpacked in the wrong order', (FORTRAN, f'{FE_}.solve_t', 'solved_values, converged, iteration, error_code = self.ENGINE.solve_t(', 'solved_values, iteration, converged, error_code = self.ENGINE.solve_t('))
V('v07.3b', 'C07', 'F', 'C07.R2', 'template: evaluate called with transposed dimensions', (FORTRAN, 'FORTRAN_TEMPLATE', 'call evaluate(previous_values, index, solved_values, error_code, nrows, ncols)', 'call evaluate(previous_values, index, solved_values, error_code, ncols, nrows)'))
V('v07.4', 'C07', 'F', 'C07.R4', 'skip/ignore codes swapped on the Python side', (FORTRAN, FE_, "        'skip':    1,\n        'ignore':  2,\n        'replace': 3,", "        'skip':    2,\n        'ignore':  1,\n        'replace': 3,"))
V('v07.5', 'C07', 'F', 'C07.R4', 'solve tests 23 for skip', (FORTRAN, f'{FE_}.solve', "elif error_code == 22 and errors == 'skip':", "elif error_code == 23 and errors == 'skip':"))
V('v07.5b', 'C07', 'F', 'C07.R4', 'revert F18 in solve_t', (FORTRAN, f'{FE_}.solve_t', """        elif error_code in (11, 12, 13, 14):
            raise IndexError(
                f'Position `t` ({t}) cannot accommodate the lags ({self.lags}) '
                f'and leads ({self.leads}) of the current model instance, '
                f'which has {len(self.span)} period(s) in its span'
            )

""", ''))
V('v07.5c', 'C07', 'F', 'C07.R4', '_evaluate maps lags/leads codes to SolutionError', (FORTRAN, f'{FE_}._evaluate', 'if error_code in (11, 12, 13, 14):', 'if error_code in (11, 12):'))
V('v07.6', 'C07', 'F', 'C07.R5', 'template: <= tol', (FORTRAN, 'FORTRAN_TEMPLATE', 'if(all(abs(diff) < tol)) then', 'if(all(abs(diff) <= tol)) then'))
V('v07.6b', 'C07', 'F', 'C07.R5', 'template: any()', (FORTRAN, 'FORTRAN_TEMPLATE', 'if(all(abs(diff) < tol)) then', 'if(any(abs(diff) < tol)) then'))
V('v07.7', 'C07', 'F', 'C07.R5', 'template: no iteration - 1 after exhaustion', (FORTRAN, 'FORTRAN_TEMPLATE', """  if(.not. converged) then
     iteration = iteration - 1
  end if

end subroutine solve_t""", """end subroutine solve_t"""))
V('v07.8', 'C07', 'F', 'C07.R5', 'template: offset upper bound >=', (FORTRAN, 'FORTRAN_TEMPLATE', 'else if(offset_location > ncols) then', 'else if(offset_location >= ncols) then'))
V('v07.8b', 'C07', 'F', 'C07.R5', 'template: gate <=', (FORTRAN, 'FORTRAN_TEMPLATE', '     if(iteration < min_iter) then\n        cycle', '     if(iteration <= min_iter) then\n        cycle'))
V('v07.8c', 'C07', 'F', 'C07.R5', 'template: loop to max_iter - 1', (FORTRAN, 'FORTRAN_TEMPLATE', '  do iteration = 1, max_iter\n', '  do iteration = 1, max_iter - 1\n'))
V('v07.8d', 'C07', 'F', 'C07.R5', 'template: solve stops on any non-convergence', (FORTRAN, 'FORTRAN_TEMPLATE', '        else if(failure_control == failure_control_raise) then', '        else if(failure_control /= failure_control_ignore + 1) then'))
V('v07.9', 'C07', 'F', 'C07.R1', 'numbering from 0', (FORTRAN, 'build_fortran_definition', 'itertools.chain(endogenous, exogenous, parameters, errors), start=1', 'itertools.chain(endogenous, exogenous, parameters, errors), start=0'))
V('v07.10', 'C07', 'F', 'C07.R1', 'exogenous numbered first', (FORTRAN, 'build_fortran_definition', 'itertools.chain(endogenous, exogenous, parameters, errors)', 'itertools.chain(exogenous, endogenous, parameters, errors)'))
V('v07.11', 'C07', 'F', 'C07.R6', 't -> index applied to the whole reference',
  (FORTRAN, 'build_fortran_definition', """variable = f"solved_values({variables_to_numbers[match[1]]}, {match[2].replace('t', 'index')})\"""", """variable = f"solved_values({variables_to_numbers[match[1]]}, {match[2]})".replace('t', 'index')"""))
V('v07.11b', 'C07', 'F', 'C07.R6', 'matches replaced left to right', (FORTRAN, 'build_fortran_definition', 'for match in reversed(list(pattern.finditer(equation))):', 'for match in list(pattern.finditer(equation)):'))
V('v07.s1', 'C07', 'S', None, 'skip code renumbered consistently on both sides',
  (FORTRAN, 'FORTRAN_TEMPLATE', 'integer :: numerical_error_skip = 22', 'integer :: numerical_error_skip = 25'),
  (FORTRAN, f'{FE_}.solve', "elif error_code == 22 and errors == 'skip':", "elif error_code == 25 and errors == 'skip':"),
  (FORTRAN, f'{FE_}.solve_t', "elif error_code == 22 and errors == 'skip':", "elif error_code == 25 and errors == 'skip':"))
V('v08.16', 'C08', 'F', 'C08.R3', 'movement computed over the submodels only (seeded C08/1)',
  (LINKERS, LT, 'diff = {k: current_values[k] - previous_values[k] for k in current_values}', 'diff = {k: current_values[k] - previous_values[k] for k in submodels}'))
V('v08.17', 'C08', 'F', 'C08.R3', 'linker convergence stated through a negation: a NaN movement counts as settled',
  (LINKERS, LT, 'if all(np.all(np.abs(v) < tol) for v in diff.values()):', 'if not any(np.any(np.abs(v) >= tol) for v in diff.values()):'))
V('v08.s3', 'C08', 'S', None, 'movement computed over previous_values.keys()',
  (LINKERS, LT, 'diff = {k: current_values[k] - previous_values[k] for k in current_values}', 'diff = {k: current_values[k] - previous_values[k] for k in previous_values.keys()}'))
V('v07.12', 'C07', 'F', 'C07.R5', 'revert F19: error code stays -1 when no pass runs',
  (FORTRAN, 'FORTRAN_TEMPLATE', "  error_code = 0\n\n  ! Solve\n", "  ! Solve\n"))
V('v07.13', 'C07', 'F', 'C07.R2b', 'engine results stored after the status loop (seeded C07/3)',
  (FORTRAN, 'FortranEngine.solve', "        # Store the values back to this Python instance\n        self.values = solved_values\n\n", ""),
  (FORTRAN, 'FortranEngine.solve', "        return labels, indexes, solved", "        self.values = solved_values\n\n        return labels, indexes, solved"))
V('v02.20', 'C02', 'F', 'C02.R5', 'abs after max (seeded C02/3)', (MODELS, ST, 'np.all(np.abs(diff) < tol)', 'np.abs(diff.max()) < tol'))
V('v02.21', 'C02', 'F', 'C02.R5', 'gate before the re-read (seeded C02/1)',
  (MODELS, ST, "            current_values = get_check_values()\n\n            # It's possible", "            if iteration < min_iter:\n                continue\n\n            current_values = get_check_values()\n\n            # It's possible"),
  (MODELS, ST, "            if iteration < min_iter:\n                continue\n\n            diff =", "            diff ="))
V('v18.6', 'C18', 'F', 'C18.R2', 'revert F20: self-maps dropped only after the loop',
  (XCOMMON, f'{AM}.__init__', "            aliases = {k: v for k, v in aliases.items() if k != v}\n\n            # Check for chained aliases", "            # Check for chained aliases"))
V('v18.7', 'C18', 'F', 'C18.R5', 'groupby over unsorted aliases (seeded C18/1)',
  (XCOMMON, f'{AM}.to_dataframe', "sorted_by_value = sorted(self.aliases.items(), key=lambda x: x[1])", "sorted_by_value = list(self.aliases.items())"))
V('v19.6', 'C19', 'F', 'C19.R1', 'revert F21: isnan applied to None', (TOOLS, 'dataframe_to_symbols', 'if field is None or np.isnan(field):', 'if np.isnan(field):'))
V('v01.15', 'C01', 'F', 'C01.R1', 'lookup by last dotted component (seeded C01/2)',
  (PARSER, 'Term.code', 'return replacement_function_names.get(code, code)', "_, _, function_name = code.rpartition('.')\n            return replacement_function_names.get(function_name, code)"))
V('v01.16', 'C01', 'F', 'C01.R3', 'equation text rewritten after formatting (seeded C01/3)',
  (PARSER, 'parse_equation', "    code = template.format(*[t.code for t in terms])\n", "    code = template.format(*[t.code for t in terms])\n    if equation.endswith(')'):\n        equation = equation[:-1]\n"))
V('v13.13', 'C13', 'F', 'C13.R5a', 'LHS guard also accepts verbatim terms (seeded C13/3)',
  (PARSER, 'parse_equation_terms', 'if not any(filter(lambda x: x.type == Type.ENDOGENOUS, lhs_terms)):', 'if not any(filter(lambda x: x.type in (Type.ENDOGENOUS, Type.VERBATIM), lhs_terms)):'))
