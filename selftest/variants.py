"""Variant catalogue for the checker self-test (DESIGN appendix A).

Each variant is a list of scoped text edits `(file, scope, old, new)` where
`scope` is a dotted class/function path inside the file ('' = whole file) and
`old` must occur exactly once inside that scope.  Variants are located by
construct, not by line.  Every edited file must still compile.
"""

from __future__ import annotations

from dataclasses import dataclass, field
from typing import List, Optional, Tuple

Edit = Tuple[str, str, str, str]


@dataclass
class Variant:
    id: str
    prop: str
    expect: str  # 'F' must fire, 'S' must stay silent, 'I' must be inconclusive
    rule: Optional[str]
    what: str
    edits: List[Edit]


VARIANTS: List[Variant] = []


def V(id, prop, expect, rule, what, *edits) -> None:
    VARIANTS.append(Variant(id, prop, expect, rule, what, list(edits)))


MODELS = 'fsic/core/models.py'
LINKERS = 'fsic/core/linkers.py'
IFACE = 'fsic/core/interfaces.py'
CONT = 'fsic/core/containers.py'
PARSER = 'fsic/parser.py'
FORTRAN = 'fsic/fortran.py'
TOOLS = 'fsic/tools.py'
FUNCS = 'fsic/functions.py'
XCOMMON = 'fsic/extensions/common.py'
XMODEL = 'fsic/extensions/model.py'

ST = 'BaseModel.solve_t'

# ---------------------------------------------------------------------------
# C02
# ---------------------------------------------------------------------------
V('v02.1', 'C02', 'F', 'C02.R5', '<= tol', (MODELS, ST, 'np.abs(diff) < tol', 'np.abs(diff) <= tol'))
V('v02.2', 'C02', 'F', 'C02.R5', 'any for all', (MODELS, ST, 'np.all(np.abs(diff) < tol)', 'np.any(np.abs(diff) < tol)'))
V('v02.3', 'C02', 'F', 'C02.R5', 'diff of current with itself',
  (MODELS, ST, 'diff = current_values - previous_values', 'diff = current_values - current_values'))
V('v02.3b', 'C02', 'F', 'C02.R5', 'previous saved after the evaluation',
  (MODELS, ST, '            previous_values = current_values.copy()\n', ''),
  (MODELS, ST, '            current_values = get_check_values()\n\n            # It', '            previous_values = current_values.copy()\n            current_values = get_check_values()\n\n            # It'))
V('v02.3c', 'C02', 'F', 'C02.R5', 'no abs: signed difference',
  (MODELS, ST, 'np.all(np.abs(diff) < tol)', 'np.all(diff < tol)'))
V('v02.4', 'C02', 'F', 'C02.R3', 'range(1, max_iter)', (MODELS, ST, 'range(1, max_iter + 1)', 'range(1, max_iter)'))
V('v02.4b', 'C02', 'F', 'C02.R3', 'range(max_iter)', (MODELS, ST, 'range(1, max_iter + 1)', 'range(max_iter)'))
V('v02.5', 'C02', 'F', 'C02.R4', 'iteration <= min_iter', (MODELS, ST, 'if iteration < min_iter:', 'if iteration <= min_iter:'))
V('v02.6', 'C02', 'F', 'C02.R4', 'gate after the convergence test',
  (MODELS, ST, '            if iteration < min_iter:\n                continue\n\n', ''),
  (MODELS, ST, "                status = SolutionStatus.SOLVED.value\n                break\n",
   "                status = SolutionStatus.SOLVED.value\n                break\n\n            if iteration < min_iter:\n                continue\n"))
V('v02.7', 'C02', 'F', 'C02.R6', 'final iterations store = max_iter',
  (MODELS, ST, '        self.status[t] = status\n        self.iterations[t] = iteration\n', '        self.status[t] = status\n        self.iterations[t] = max_iter\n'))
V('v02.8', 'C02', 'F', 'C02.R6', 'return status != FAILED',
  (MODELS, ST, 'return status == SolutionStatus.SOLVED.value', 'return status != SolutionStatus.FAILED.value'))
V('v02.9', 'C02', 'F', 'C02.R7', 'revert F1: no counter initialisation',
  (MODELS, ST, '        iteration = 0\n\n', ''))
V('v02.9b', 'C02', 'F', 'C02.R6', 'counter initialised to -1', (MODELS, ST, '        iteration = 0\n', '        iteration = -1\n'))
V('v02.10', 'C02', 'F', 'C02.R8', 'solve_t_after after the final stores',
  (MODELS, ST, """                with warnings.catch_warnings(record=True) as w:  # noqa: F841
                    if errors == 'raise' and catch_first_error:
                        warnings.simplefilter('error')
                    else:
                        warnings.simplefilter('always')

                    try:
                        self.solve_t_after(
                            t,
                            errors=errors,
                            catch_first_error=catch_first_error,
                            iteration=iteration,
                            **kwargs,
                        )
                    except Exception as e:
                        raise SolutionError(
                            f'Error in `solve_t_after()` '
                            f'in period with label: {self.span[t]} (index: {t})'
                        ) from e

""", ''),
  (MODELS, ST, "        self.status[t] = status\n        self.iterations[t] = iteration\n",
   """        self.status[t] = status
        self.iterations[t] = iteration

        try:
            self.solve_t_after(
                t,
                errors=errors,
                catch_first_error=catch_first_error,
                iteration=iteration,
                **kwargs,
            )
        except Exception as e:
            raise SolutionError('Error in `solve_t_after()`') from e
"""))
V('v02.12', 'C02', 'F', 'C02.R1', 'min/max check after the offset copy',
  (MODELS, ST, """        # Error if `min_iter` exceeds `max_iter`
        if min_iter > max_iter:
            raise ValueError(
                f'Value of `min_iter` ({min_iter}) '
                f'cannot exceed value of `max_iter` ({max_iter})'
            )
""", ''),
  (MODELS, ST, "        status = SolutionStatus.UNSOLVED.value\n        current_values = get_check_values()\n",
   "        if min_iter > max_iter:\n            raise ValueError('min_iter > max_iter')\n\n        status = SolutionStatus.UNSOLVED.value\n        current_values = get_check_values()\n"))
V('v02.13', 'C02', 'F', 'C02.R2', 'offset upper bound > instead of >=',
  (MODELS, ST, 'if t_check + offset >= len(self.span):', 'if t_check + offset > len(self.span):'))
V('v02.13b', 'C02', 'F', 'C02.R2', 'offset lower bound <= 0', (MODELS, ST, 'if t_check + offset < 0:', 'if t_check + offset <= 0:'))
V('v02.13c', 'C02', 'F', 'C02.R2', 'copy from t - offset',
  (MODELS, ST, "self.__dict__['_' + name][t + offset]", "self.__dict__['_' + name][t - offset]"))
V('v02.13d', 'C02', 'F', 'C02.R2', 'offset bound tested on raw t',
  (MODELS, ST, 'if t_check + offset < 0:', 'if t + offset < 0:'))
V('v02.14', 'C02', 'F', 'C02.R9', 'solve_period drops tol', (IFACE, 'SolverMixin.solve_period', '            tol=tol,\n', ''))
V('v02.15', 'C02', 'F', 'C02.R9', 'solve_period failures=errors', (IFACE, 'SolverMixin.solve_period', 'failures=failures,', 'failures=errors,'))
V('v02.16', 'C02', 'F', 'C02.R6', 'NonConvergenceError regardless of failures',
  (MODELS, ST, "if status == SolutionStatus.FAILED.value and failures == 'raise':", 'if status == SolutionStatus.FAILED.value:'))
V('v02.17', 'C02', 'F', 'C02.R6', 'skip branch breaks without a status',
  (MODELS, ST, "                    status = SolutionStatus.SKIPPED.value\n                    break", "                    break"))
V('v02.18', 'C02', 'F', 'C02.R6', 'F on a non-final pass (ignore)',
  (MODELS, ST, """                elif errors == 'ignore':
                    if iteration == max_iter:
                        status = SolutionStatus.FAILED.value
                        break
                    continue""", """                elif errors == 'ignore':
                    status = SolutionStatus.FAILED.value
                    break"""))
V('v02.19', 'C02', 'F', 'C02.R3', 'evaluation passes iteration - 1', (MODELS, ST, '                        iteration=iteration,\n                        **kwargs,\n                    )\n                except Exception as e:\n                    if', '                        iteration=iteration - 1,\n                        **kwargs,\n                    )\n                except Exception as e:\n                    if'))
V('v02.s1', 'C02', 'S', None, 'np.absolute, flipped comparison',
  (MODELS, ST, 'np.all(np.abs(diff) < tol)', 'np.all(tol > np.absolute(diff))'))
V('v02.s2', 'C02', 'S', None, 'previous saved with np.array()',
  (MODELS, ST, 'previous_values = current_values.copy()', 'previous_values = np.array(current_values)'))
V('v02.s3', 'C02', 'S', None, 'affine rewrite of the loop bound', (MODELS, ST, 'range(1, max_iter + 1)', 'range(1, 1 + max_iter)'))
V('v02.s4', 'C02', 'S', None, 'gate as negated >=', (MODELS, ST, 'if iteration < min_iter:', 'if not iteration >= min_iter:'))
V('v02.s5', 'C02', 'S', None, 'offset bound rewritten', (MODELS, ST, 'if t_check + offset >= len(self.span):', 'if t_check + offset > len(self.span) - 1:'))
V('v02.s6', 'C02', 'S', None, 'method-form reduction', (MODELS, ST, 'np.all(np.abs(diff) < tol)', '(np.abs(diff) < tol).all()'))
V('v02.s7', 'C02', 'S', None, 'not any(>=)', (MODELS, ST, 'np.all(np.abs(diff) < tol)', 'not np.any(np.abs(diff) >= tol)'))
V('v02.i1', 'C02', 'I', None, 'norm-based convergence test',
  (MODELS, ST, 'np.all(np.abs(diff) < tol)', 'np.linalg.norm(diff, np.inf) < tol'))
